#!/bin/sh
# quick manual build of one engine against a variant: tools/mk.sh <engine> <variant> [extra sources/flags]
e=$1; v=${2:-plain}; shift 2
gcc -O1 -g -Wall -Wno-deprecated-declarations -I/repo/include -Iharness -Iref harness/$e.c "$@" harness/hashalgs.c harness/common.c harness/hook.S ref/ref.c ref/rolling_table.c -Wl,--whole-archive .build/$v/isa-l_crypto.a -Wl,--no-whole-archive -lpthread -lcrypto -o .build/bin/$e-$v
