#!/bin/sh
# run every check (tier $1, default quick) and summarise
tier=${1:-quick}
for i in 01 02 03 04 05 06 07 08 09 10 11 12 13 14 15 16 17 18 19 20; do
  s=$(date +%s)
  out=$(./check C$i --tier $tier 2>&1)
  rc=$?
  e=$(date +%s)
  echo "C$i rc=$rc $((e-s))s $(echo "$out" | grep "^C$i:" | tail -1 | cut -c1-150)"
  if [ $rc -ne 0 ]; then echo "$out" | grep "VIOLATION\|key:\|INCONCLUSIVE\|HARNESS" | head -8 | cut -c1-300; fi
done
