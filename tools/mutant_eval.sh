#!/bin/sh
# tools/mutant_eval.sh <patch.diff> <Cxx> [Cxx...] : apply a seeded change to /repo, run the named checks, undo it.
p=$1; shift
if [ -n "$(git -C /repo status --porcelain --untracked-files=no)" ]; then echo "REPO NOT CLEAN"; exit 2; fi
git -C /repo apply "$p" || { echo "PATCH DOES NOT APPLY"; exit 2; }
for c in "$@"; do
  out=$(./check $c --tier ${TIER:-quick} 2>&1); rc=$?
  nk=$(echo "$out" | grep -c "^VIOLATION")
  echo "$c rc=$rc violations_keys=$nk $(echo "$out" | grep "  key:" | head -3 | cut -c1-110 | tr '\n' '|')"
  [ $rc -eq 2 ] && echo "$out" | grep "HARNESS\|INCONCLUSIVE" | head -3 | cut -c1-300
done
git -C /repo checkout -- .
[ -z "$(git -C /repo status --porcelain --untracked-files=no)" ] && echo "repo restored"
