#!/usr/bin/env python3
"""Instruction coverage of the library's code under the checks' own workloads (measurement, not a verdict).

  asmcov.py prepare <engine-exe>          write <exe>.insn: addresses of the instructions of the library objects (from objdump + <exe>.objmap)
  asmcov.py report <hits-dir> [out.json]  merge the <exe-basename>.<pid>.hits files the workers wrote (VERIF_ASMCOV=<hits-dir>) and report,
                                          per library object and per label, how many instructions were executed at least once

Instructions are identified across engines by (object file, section, offset), so runs of different engines add up.
Padding (nop forms, int3) and the `jmp *slot(%rip)` stubs of the dispatched entry points (the harness decodes them) are left out.
"""
import sys, os, re, subprocess, array, bisect, json, glob

HERE = os.path.dirname(os.path.abspath(__file__))
NOP = re.compile(r"^(nop|nopw|nopl|xchg\s+%ax,%ax|data16|cs nopw|int3)\b")


def objmap(exe):
    rng = []
    for ln in open(exe + ".objmap"):
        a, n, sec, obj = ln.split()
        if sec.startswith(".text"):
            rng.append((int(a, 16), int(a, 16) + int(n, 16), sec, obj))
    rng.sort()
    return rng


def disasm(exe):
    """[(addr, text, range)] for the instructions inside library .text ranges. A label in .text that some instruction addresses as a
    memory operand (rip-relative, not a branch) is data that objdump decoded as code (sm3_mb_x8_avx2.asm keeps its tables there):
    everything from such a target to the end of that object's section is left out."""
    rng = objmap(exe)
    starts = [r[0] for r in rng]
    r = subprocess.run(["objdump", "-d", "--no-show-raw-insn", "-j", ".text", exe], capture_output=True, text=True)
    syms = sorted(set(a for a, _ in labels(exe)))
    rows, data = [], []
    for ln in r.stdout.splitlines():
        m = re.match(r"^\s*([0-9a-f]+):\t(.*)$", ln)
        if not m:
            continue
        a = int(m.group(1), 16)
        i = bisect.bisect_right(starts, a) - 1
        if i < 0 or a >= rng[i][1]:
            continue
        t = m.group(2).strip()
        rows.append((a, t, rng[i]))
        c = re.search(r"#\s+([0-9a-f]+)\s+<", t)
        if c and "(%rip)" in t and not re.match(r"^(j\w+|call|bnd)\b", t):
            tg = int(c.group(1), 16)
            j = bisect.bisect_right(starts, tg) - 1
            # (lea of a label in another object is a dispatcher taking the address of a family function: code)
            if j >= 0 and tg < rng[j][1] and (not t.startswith("lea") or j == i):
                data.append((tg, rng[j][1]))       # NASM sources put such tables behind the code: to the end of the object's section
    data.sort()
    dstart = [d[0] for d in data]
    out = []
    for a, t, rg in rows:
        if re.match(r"^jmp\s+\*0x[0-9a-f]+\(%rip\)", t):      # dispatched entry: the harness decodes this stub and the call of <entry>_mbinit right before it
            while out and out[-1][0] >= a - 9:
                out.pop()
            continue
        if not t or NOP.match(t) or "(bad)" in t:
            continue
        j = bisect.bisect_right(dstart, a) - 1
        if j >= 0 and any(lo <= a < hi for lo, hi in data[max(0, j - 3):j + 1]):
            continue
        out.append((a, t, rg))
    return out


def prepare(exe):
    ins = disasm(exe)
    a = array.array("Q", [x[0] for x in ins])
    with open(exe + ".insn.tmp", "wb") as f:
        a.tofile(f)
    os.rename(exe + ".insn.tmp", exe + ".insn")
    return len(a)


def labels(exe):
    syms = []
    for ln in open(exe + ".syms"):
        p = ln.split()
        if len(p) == 3 and p[1] in "TtWw":
            syms.append((int(p[0], 16), p[2]))
    syms.sort()
    return syms


def report(hdir, outp=None, bindir=None):
    bindir = bindir or os.path.join(os.path.dirname(HERE), ".build", "bin")
    by_exe = {}
    for f in glob.glob(os.path.join(hdir, "*.hits")):
        b = os.path.basename(f).rsplit(".", 2)[0]
        by_exe.setdefault(b, []).append(f)
    total = {}      # (obj, sec, off, normalised text) -> [hit, text, label]
    engines = {}
    norm = lambda t: re.sub(r"\b[0-9a-f]{4,}(?= <)", "", re.sub(r"-?0x[0-9a-f]+\(%rip\)", "(%rip)", t.split("#")[0])).strip()     # link-layout dependent parts out
    # the default build first; an instruction of another library build (fips, noparam, ...) that is the same instruction at the same place of
    # the same object adds to it (the assembly objects are the same code in every build), anything else is listed under "<object> [<variant>]"
    order = sorted(by_exe.items(), key=lambda kv: ("-".join(kv[0].split("-")[1:-1]) != "plain", kv[0]))
    for b, files in order:
        exe = os.path.join(bindir, b)
        if not os.path.exists(exe + ".insn"):
            print("no .insn for", b, file=sys.stderr)
            continue
        ins = disasm(exe)
        n = len(ins)
        acc = bytearray(n)
        used = 0
        for f in files:
            d = open(f, "rb").read()
            if len(d) != n:
                continue
            used += 1
            acc = bytearray(x | y for x, y in zip(acc, d))
        syms = labels(exe)
        saddr = [s[0] for s in syms]
        variant = "-".join(b.split("-")[1:-1])      # <engine>-<variant>-<hash>
        for (a, t, (lo, hi, sec, obj)), h in zip(ins, acc):
            k = (obj, sec, a - lo, norm(t))
            if variant != "plain" and k not in total:
                k = ("%s [%s]" % (obj, variant), sec, a - lo, norm(t))
            e = total.get(k)
            if e is None:
                j = bisect.bisect_right(saddr, a) - 1
                lab = syms[j][1] if j >= 0 and syms[j][0] >= lo else "(section start)"
                total[k] = [1 if h else 0, t, lab]
            elif h:
                e[0] = 1
        engines[b] = dict(processes=used, instructions=n, executed=sum(1 for x in acc if x))
    per_obj = {}
    for (obj, sec, off, _), (h, t, lab) in total.items():
        o = per_obj.setdefault(obj, dict(instructions=0, executed=0, labels={}))
        o["instructions"] += 1
        o["executed"] += h
        l = o["labels"].setdefault(lab, [0, 0])
        l[0] += 1
        l[1] += h
    res = dict(engines=engines, instructions=len(total), executed=sum(v[0] for v in total.values()), objects={})
    gaps = {}       # obj -> [(n, label, first instruction text)]: maximal runs of consecutive never-executed instructions
    run = None
    for (obj, sec, off, nt) in sorted(total):
        h, t, lab = total[(obj, sec, off, nt)]
        if h or (run and (run[0], run[1]) != (obj, sec)):
            if run:
                gaps.setdefault(run[0], []).append((run[4], run[2], run[3]))
            run = None
        if not h:
            if run is None:
                run = [obj, sec, lab, t, 0]
            run[4] += 1
    if run:
        gaps.setdefault(run[0], []).append((run[4], run[2], run[3]))
    for obj, o in sorted(per_obj.items()):
        never = sorted((n for n, (t, h) in o["labels"].items() if h == 0 and t >= 4), key=lambda n: -o["labels"][n][0])
        res["objects"][obj] = dict(instructions=o["instructions"], executed=o["executed"],
                                   labels=len(o["labels"]), labels_never_entered=[dict(label=n, instructions=o["labels"][n][0]) for n in never],
                                   longest_unexecuted_runs=[dict(instructions=n, in_label=l, starts_with=t) for n, l, t in sorted(gaps.get(obj, []), reverse=True)[:8]])
    if outp:
        json.dump(res, open(outp, "w"), indent=1)
    print("library instructions: %d, executed at least once: %d (%.1f%%)" % (res["instructions"], res["executed"], 100.0 * res["executed"] / max(1, res["instructions"])))
    worst = sorted(res["objects"].items(), key=lambda kv: kv[1]["instructions"] - kv[1]["executed"], reverse=True)
    for obj, o in worst[:60]:
        print("%-48s %6d/%6d  never-entered labels: %s" % (obj, o["executed"], o["instructions"], ", ".join("%s(%d)" % (x["label"], x["instructions"]) for x in o["labels_never_entered"][:6])))
    return res


if __name__ == "__main__":
    if sys.argv[1] == "prepare":
        print(prepare(sys.argv[2]))
    elif sys.argv[1] == "report":
        report(sys.argv[2], sys.argv[3] if len(sys.argv) > 3 else None)
