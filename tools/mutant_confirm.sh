#!/bin/sh
# tools/mutant_confirm.sh <worktree> : for every _mutants/<id>/ confirm (1) suite passes with the patch, (2) demo fails with / passes without.
wt=$1
cd $wt || exit 2
git checkout -q -- . 
for d in _mutants/C*-m*; do
  [ -f $d/patch.diff ] || continue
  [ -f $d/confirm.txt ] && continue
  id=$(basename $d)
  git checkout -q -- .
  if ! git apply $d/patch.diff 2>/dev/null; then echo "$id APPLY-FAIL" | tee $d/confirm.txt; continue; fi
  find . -name "*.asm" -not -path "./_mutants/*" | xargs touch    # automake does not track %include
  pass=$(make -j8 check 2>&1 | grep -E "^# PASS:" | awk '{print $3}')
  (cd $d && sh ./run_demo.sh >/dev/null 2>&1); with=$?
  git checkout -q -- .
  find . -name "*.asm" -not -path "./_mutants/*" | xargs touch
  make -j8 >/dev/null 2>&1
  (cd $d && sh ./run_demo.sh >/dev/null 2>&1); without=$?
  echo "$id suite_pass=$pass demo_with_patch_rc=$with demo_without_rc=$without" | tee $d/confirm.txt
done
git checkout -q -- .
