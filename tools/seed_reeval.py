#!/usr/bin/env python3
"""Re-evaluate the seeded changes kept under /verif/seeded with the current machinery (same checks as recorded in meta.json: runs).
Each patch is applied to a scratch worktree of /repo (SEED_EVAL, never /repo itself) and the checks run against it through VERIF_REPO.

usage: SEED_EVAL=/tmp/wt/<dir> seed_reeval.py [id-prefix-filter ...]      e.g. seed_reeval.py C01 C02
"""
import sys, os, json, subprocess, re, glob
V = os.path.dirname(os.path.dirname(os.path.abspath(__file__)))
EVAL = os.environ.get("SEED_EVAL", "/tmp/wt/eval")


def sh(cmd):
    return subprocess.run(cmd, shell=True, capture_output=True, text=True)


def main():
    if not os.path.isdir(EVAL):
        r = sh("git -C /repo worktree add -q --detach %s HEAD" % EVAL)
        if r.returncode:
            raise SystemExit(r.stderr)
    head = sh("git -C /repo rev-parse HEAD").stdout.strip()
    sh("git -C %s checkout -q -- . ; git -C %s checkout -q --detach %s" % (EVAL, EVAL, head))
    filt = sys.argv[1:]
    for d in sorted(glob.glob(os.path.join(V, "seeded", "*"))):
        mid = os.path.basename(d)
        if filt and not any(mid.startswith(f) for f in filt):
            continue
        meta = json.load(open(os.path.join(d, "meta.json")))
        sh("git -C %s checkout -q -- ." % EVAL)
        r = sh("git -C %s apply %s" % (EVAL, os.path.join(d, "patch.diff")))
        if r.returncode:
            print(mid, "patch does not apply to HEAD", r.stderr[:200]); continue
        env = dict(os.environ, VERIF_REPO=EVAL)
        runs = []
        for old in meta.get("runs", []) or [dict(check=mid.split("-")[0], tier="quick")]:
            r = subprocess.run(["./check", old["check"], "--tier", old["tier"]], cwd=V, env=env, capture_output=True, text=True)
            keys = re.findall(r"^  key: (.*)$", r.stdout, re.M)
            runs.append(dict(check=old["check"], tier=old["tier"], exit_code=r.returncode, detected=(r.returncode == 1 and len(keys) > 0), violation_keys=keys[:8]))
        sh("git -C %s checkout -q -- ." % EVAL)
        meta.update(dict(runs=runs, evaluated_on_repo_head=head, detected_by_own_quick_check=runs[0]["detected"], detected=any(x["detected"] for x in runs)))
        json.dump(meta, open(os.path.join(d, "meta.json"), "w"), indent=1)
        print(mid, " ".join("%s@%s=%s" % (x["check"], x["tier"], "DET" if x["detected"] else "miss(rc%d)" % x["exit_code"]) for x in runs), flush=True)


main()
