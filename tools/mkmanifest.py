#!/usr/bin/env python3
"""Regenerate /verif/MANIFEST.json from tools/checks.py."""
import json, os, sys
sys.path.insert(0, os.path.dirname(os.path.abspath(__file__)))
import checks as REG
V = os.path.dirname(os.path.dirname(os.path.abspath(__file__)))
props = [json.loads(l)["id"] for l in open(os.path.join(V, "properties.jsonl"))]
hooks = dict(guard="ISAL_CRYPTO_VERIF",
             enable="tools/vbuild.py builds /repo's working tree with the Makefile.unx command lines plus D=ISAL_CRYPTO_VERIF (cc/nasm -D ISAL_CRYPTO_VERIF); only include/reg_sizes.asm tests the guard",
             baseline_off_cmd="cd /repo && make -j8 check", source_commits=["125ed4d"], add_only=True)
checks = []
for p in props:
    if p not in REG.CHECKS:
        continue
    s = REG.CHECKS[p]
    checks.append(dict(property_id=p, quick_cmd="./check %s --tier quick" % p, thorough_cmd="./check %s --tier thorough" % p,
                       evidence_file="evidence/%s.json" % p, replay_cmd_template="./check --replay {path}",
                       engine=",".join(sorted(set(t["engine"] for t in (s["setup_tasks"]() if s.get("setup_tasks") else s["tasks"]("quick"))))),
                       level_claimed=dict(category=s["level"], text=s.get("level_text", REG.DEFAULT_LEVEL_TEXT), design_ref=s.get("design_ref", "DESIGN.md section 3 (%s)" % p)),
                       level_note="; ".join(s["assumptions"]), technique=s.get("technique", "runtime monitoring: differential oracle over seeded executions of the built library")))
na = [dict(property_id=p, reason=REG.NOT_APPLICABLE.get(p, "no check registered yet")) for p in props if p not in REG.CHECKS]
engines = [dict(name=n, path=e["src"][0], serves_properties=sorted(p for p, s in REG.CHECKS.items() if any(t["engine"] == n for t in (s["setup_tasks"]() if s.get("setup_tasks") else s["tasks"]("quick")))),
                kind_free_text=e.get("kind", "C harness linked against the library built from /repo's working tree")) for n, e in REG.ENGINES.items()]
m = dict(version=1, setup_cmd="./check --setup", hooks=hooks, engines=engines, checks=checks,
         notes="All checks are runtime monitors over executions of the library built from /repo's current working tree; see DESIGN.md. Known findings: KNOWN_FINDINGS.txt.",
         not_applicable=na)
json.dump(m, open(os.path.join(V, "MANIFEST.json"), "w"), indent=1)
print("MANIFEST.json: %d checks, %d not_applicable" % (len(checks), len(na)))
