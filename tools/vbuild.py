#!/usr/bin/env python3
"""vbuild - build a variant of the library from /repo's current working tree.

The source list and flags are taken from `make -n -f Makefile.unx` (so a file
added to a Makefile.am or a changed default flag is picked up); every object is
compiled into a content-addressed cache keyed by tool version, effective flags
and the bytes of the source and of its transitive include closure.  An edited
source or header is recompiled, an untouched one reused.

Usage: vbuild.py <variant> [--print]
Variants: plain asan tsan fips fips-tsan fips-asan noparam fips-noparam noarch fips-noarch noarch-tsan fips-noarch-tsan
Output : /verif/.build/<variant>/isa-l_crypto.a , objs.json (name, src, kind, key)
"""
import sys, os, re, json, hashlib, shlex, subprocess, fcntl, shutil, time
from concurrent.futures import ThreadPoolExecutor

REPO = os.environ.get("VERIF_REPO", "/repo")
VERIF = os.path.dirname(os.path.dirname(os.path.abspath(__file__)))
CACHE = os.path.join(VERIF, ".cache", "obj")
# a scratch copy of the repository (VERIF_REPO=<dir>) gets its own build directory; the object cache is shared (content addressed)
BUILD = os.path.join(VERIF, ".build" if REPO == "/repo" else ".build-" + hashlib.sha256(REPO.encode()).hexdigest()[:8])
GUARD = "ISAL_CRYPTO_VERIF"

SAN = {
    "asan": "-O1 -g -fno-omit-frame-pointer -U_FORTIFY_SOURCE -fsanitize=address,bounds,null,pointer-overflow,object-size -fno-sanitize-recover=all",
    "tsan": "-O1 -g -fno-omit-frame-pointer -U_FORTIFY_SOURCE -fsanitize=thread",
}
VARIANTS = {
    "plain": dict(fips=False, san=None),
    "asan": dict(fips=False, san="asan"),
    "tsan": dict(fips=False, san="tsan"),
    "fips": dict(fips=True, san=None),
    "fips-tsan": dict(fips=True, san="tsan"),
    "fips-asan": dict(fips=True, san="asan"),
    # default SAFE_DATA with the parameter checks compiled out (make SAFE_PARAM=n): the two options are independent in make.inc
    "noparam": dict(fips=False, san=None, make=["SAFE_PARAM=n"]),
    "fips-noparam": dict(fips=True, san=None, make=["SAFE_PARAM=n"]),
    # the portable C configuration (make arch=noarch): *_base.c + *_base_aliases.c, fips/self_tests_generic.c, no AES unit;
    # these files are not compiled at all in the x86 configuration
    "noarch": dict(fips=False, san=None, make=["arch=noarch"]),
    "fips-noarch": dict(fips=True, san=None, make=["arch=noarch"]),
    "noarch-tsan": dict(fips=False, san="tsan", make=["arch=noarch"]),
    "fips-noarch-tsan": dict(fips=True, san="tsan", make=["arch=noarch"]),
}

_INC = re.compile(rb'^[ \t]*[%#][ \t]*include[ \t]+["<]([^">]+)[">]', re.M)
_toolver = {}


def toolver(tool):
    if tool not in _toolver:
        try:
            out = subprocess.run([tool, "--version"], capture_output=True, text=True).stdout.splitlines()[0]
        except Exception:
            out = "?"
        _toolver[tool] = out
    return _toolver[tool]


_filecache = {}


def rd(path):
    if path not in _filecache:
        try:
            with open(path, "rb") as f:
                _filecache[path] = f.read()
        except OSError:
            _filecache[path] = None
    return _filecache[path]


def closure(src, incdirs):
    """transitive include closure of src (paths relative to REPO)."""
    seen, order, todo = set(), [], [src]
    while todo:
        p = todo.pop()
        if p in seen:
            continue
        seen.add(p)
        data = rd(os.path.join(REPO, p))
        if data is None:
            continue
        order.append(p)
        for m in _INC.finditer(data):
            name = m.group(1).decode("latin1")
            cands = [os.path.normpath(os.path.join(os.path.dirname(p), name))]
            cands += [os.path.normpath(os.path.join(d, name)) for d in incdirs]
            for c in cands:
                if c.startswith(".."):
                    continue
                if rd(os.path.join(REPO, c)) is not None:
                    todo.append(c)
                    break
    return sorted(order)


def parse_make(fips, extra=()):
    O = "/__VBUILD_O__"
    cmd = ["make", "-n", "-f", "Makefile.unx", "-C", REPO, "O=" + O,
           "lib_name=" + O + "/isa-l_crypto.a", "D=" + GUARD]
    if fips:
        cmd.append("FIPS_MODE=y")
    cmd += list(extra)
    cmd.append("lib")
    r = subprocess.run(cmd, capture_output=True, text=True)
    if r.returncode != 0:
        raise SystemExit("vbuild: make -n failed:\n" + r.stderr[-2000:])
    objs, arlist = [], None
    for line in r.stdout.splitlines():
        line = line.strip()
        if not line:
            continue
        try:
            tok = shlex.split(line)
        except ValueError:
            continue
        if not tok:
            continue
        tool = os.path.basename(tok[0])
        if tool in ("cc", "gcc", "clang", "nasm", "yasm") and "-o" in tok:
            i = tok.index("-o")
            out = tok[i + 1]
            src = tok[-1]
            if not out.startswith(O):
                continue
            args = tok[1:i] + tok[i + 2:-1]
            kind = "asm" if tool in ("nasm", "yasm") else "c"
            objs.append(dict(tool=tok[0], args=args, src=src, name=os.path.basename(out), kind=kind))
        elif tool == "ar" and len(tok) > 3 and tok[2].startswith(O):
            arlist = [os.path.basename(x) for x in tok[3:]]
    if not objs or arlist is None:
        raise SystemExit("vbuild: could not parse make -n output")
    byname = {o["name"]: o for o in objs}
    return [byname[n] for n in arlist if n in byname]


def effective(o, san):
    """argument list actually used + cache key."""
    args = list(o["args"])
    if o["kind"] == "c" and san:
        args += shlex.split(SAN[san])
    if o["kind"] == "asm":
        # what ./configure defines on this host (nasm 2.16 knows AVX-512); the suite's build has it,
        # Makefile.unx does not: without it sm3's dispatcher never selects its avx512 family
        args += ["-DHAVE_AS_KNOWS_AVX512"]
    incdirs = []
    i = 0
    while i < len(args):
        a = args[i]
        if a == "-I" and i + 1 < len(args):
            incdirs.append(args[i + 1]); i += 2; continue
        if a.startswith("-I"):
            incdirs.append(a[2:])
        i += 1
    incdirs = [os.path.normpath(d) for d in incdirs]
    files = closure(os.path.normpath(o["src"]), incdirs)
    blob = b"".join(rd(os.path.join(REPO, f)) for f in files)
    # a -D whose macro name is mentioned nowhere in the closure cannot matter
    keyargs, i = [], 0
    while i < len(args):
        a = args[i]
        name = None
        if a == "-D" and i + 1 < len(args):
            name = args[i + 1].split("=")[0]; item = a + args[i + 1]; i += 2
        elif a.startswith("-D"):
            name = a[2:].split("=")[0]; item = a; i += 1
        else:
            item = a; i += 1
        if name is not None and name.encode() not in blob:
            continue
        keyargs.append(item)
    h = hashlib.sha256()
    h.update(toolver(o["tool"]).encode())
    h.update(("\0".join(keyargs)).encode())
    for f in files:
        d = rd(os.path.join(REPO, f))
        h.update(f.encode() + b"\0" + str(len(d)).encode() + b"\0")
        h.update(d)
    return args, h.hexdigest()


def compile_one(o):
    dst = os.path.join(CACHE, o["key"] + ".o")
    if os.path.exists(dst):
        return None
    tmp = dst + ".tmp%d" % os.getpid()
    cmd = [o["tool"]] + o["eargs"]
    if o["kind"] == "c":
        cmd += ["-c"] if "-c" not in cmd else []
    cmd += ["-o", tmp, o["src"]]
    r = subprocess.run(cmd, cwd=REPO, capture_output=True, text=True)
    if r.returncode != 0:
        try:
            os.unlink(tmp)
        except OSError:
            pass
        return "FAILED: %s\n%s" % (" ".join(cmd)[-300:], r.stderr[-3000:])
    os.rename(tmp, dst)
    return None


def build(variant, quiet=False):
    v = VARIANTS[variant]
    os.makedirs(CACHE, exist_ok=True)
    os.makedirs(BUILD, exist_ok=True)
    t0 = time.time()
    lock = open(os.path.join(VERIF, ".cache", "lock"), "w")
    fcntl.flock(lock, fcntl.LOCK_EX)
    try:
        objs = parse_make(v["fips"], v.get("make", ()))
        for o in objs:
            o["eargs"], o["key"] = effective(o, v["san"])
        # longest (largest closure) first: the vaes gcm files dominate
        todo = [o for o in objs if not os.path.exists(os.path.join(CACHE, o["key"] + ".o"))]
        todo.sort(key=lambda o: -len(rd(os.path.join(REPO, o["src"])) or b"") if "gcm" not in o["src"] else -10**9)
        errs = []
        if todo:
            with ThreadPoolExecutor(max_workers=int(os.environ.get("VERIF_JOBS", "16"))) as ex:
                for e in ex.map(compile_one, todo):
                    if e:
                        errs.append(e)
        if errs:
            sys.stderr.write("\n".join(errs[:5]) + "\n")
            raise SystemExit("vbuild: %d object(s) failed to build" % len(errs))
        libkey = hashlib.sha256(("\n".join(o["name"] + ":" + o["key"] for o in objs)).encode()).hexdigest()
        bdir = os.path.join(BUILD, variant)
        lib = os.path.join(bdir, "isa-l_crypto.a")
        meta = os.path.join(bdir, "objs.json")
        old = None
        try:
            old = json.load(open(meta))["libkey"]
        except Exception:
            pass
        if old != libkey or not os.path.exists(lib):
            shutil.rmtree(bdir, ignore_errors=True)
            od = os.path.join(bdir, "obj")
            os.makedirs(od)
            names = []
            for o in objs:
                p = os.path.join(od, o["name"])
                try:
                    os.link(os.path.join(CACHE, o["key"] + ".o"), p)
                except OSError:
                    shutil.copy(os.path.join(CACHE, o["key"] + ".o"), p)
                names.append(p)
            subprocess.run(["ar", "crD", lib] + names, check=True)
            json.dump(dict(libkey=libkey, variant=variant,
                           objs=[dict(name=o["name"], src=o["src"], kind=o["kind"], key=o["key"]) for o in objs]),
                      open(meta, "w"))
        if not quiet:
            sys.stderr.write("vbuild %s: %d objects, %d compiled, %.1fs, libkey %s\n"
                             % (variant, len(objs), len(todo), time.time() - t0, libkey[:12]))
        return lib, libkey
    finally:
        fcntl.flock(lock, fcntl.LOCK_UN)
        lock.close()


def gc_cache(max_bytes=6 << 30):
    """drop least recently used objects when the cache grows too large."""
    try:
        ents = [(os.stat(os.path.join(CACHE, f)).st_atime, os.stat(os.path.join(CACHE, f)).st_size, f)
                for f in os.listdir(CACHE)]
    except OSError:
        return
    tot = sum(e[1] for e in ents)
    for at, sz, f in sorted(ents):
        if tot <= max_bytes:
            break
        try:
            os.unlink(os.path.join(CACHE, f)); tot -= sz
        except OSError:
            pass


if __name__ == "__main__":
    if len(sys.argv) < 2 or sys.argv[1] not in VARIANTS:
        raise SystemExit(__doc__)
    lib, key = build(sys.argv[1])
    print(lib)
