#!/usr/bin/env python3
"""Markdown table of the seeded changes under /verif/seeded (for DESIGN.md)."""
import json, os, glob
V = os.path.dirname(os.path.dirname(os.path.abspath(__file__)))
rows = []
for f in sorted(glob.glob(os.path.join(V, "seeded", "*", "meta.json"))):
    m = json.load(open(f))
    det = []
    for r in m.get("runs", []):
        if r["detected"]:
            det.append("%s%s (%s)" % (r["check"], "" if r["tier"] == "quick" else " thorough", (r["violation_keys"] or ["?"])[0][:60]))
    files = ", ".join(os.path.basename(x) for x in m.get("files", []))[:60]
    rows.append("| %s | %s | %s | %s |" % (m["id"], files, (m.get("summary") or "")[:120].replace("|", "/"), "; ".join(det) if det else "**not detected** (%s)" % m.get("note", "see text")))
print("| id | file | seeded change | detected by (first violation key) |\n|---|---|---|---|")
print("\n".join(rows))
