#!/bin/sh
# tools/mutant_eval_wt.sh <scratch-worktree> <patch.diff> <Cxx[@tier]> [...] : apply a seeded change to a scratch worktree of /repo
# (never /repo itself), run the named checks against it (VERIF_REPO), undo it.
wt=$1; p=$2; shift 2
git -C $wt checkout -q -- . ; git -C $wt checkout -q --detach $(git -C /repo rev-parse HEAD)
git -C $wt apply "$p" || { echo "PATCH DOES NOT APPLY"; exit 2; }
for spec in "$@"; do
  c=${spec%@*}; t=quick; case $spec in *@*) t=${spec#*@};; esac
  out=$(VERIF_REPO=$wt ./check $c --tier $t 2>&1); rc=$?
  echo "$c@$t rc=$rc $(echo "$out" | grep "  key:" | head -3 | cut -c1-110 | tr '\n' '|')"
  [ $rc -eq 2 ] && echo "$out" | grep "HARNESS\|INCONCLUSIVE" | head -3 | cut -c1-300
done
git -C $wt checkout -q -- .
