#!/bin/sh
# evaluate the fourth round of seeded changes (own property's quick check, plus a second check where noted)
wt=${1:-/tmp/wt/eval3}; shift
run() { d=$1; shift; for m in "$@"; do id=${m%%:*}; extra=$(echo "${m#*:}" | tr ',' ' '); [ "$extra" = "$id" ] && extra=""; [ -f /tmp/wt/$d/_mutants/$id/patch.diff ] || continue; echo "== $id"; tools/mutant_eval_wt.sh $wt /tmp/wt/$d/_mutants/$id/patch.diff ${id%%-*} $extra; done; }
run B1 C01-m7 C01-m8:C15 C09-m7 C09-m8
run B3 C03-m7 C03-m8 C16-m7 C16-m8:C13
run B5 C05-m7 C05-m8 C20-m7:C09 C20-m8
run B8 C10-m7 C10-m8 C11-m7 C11-m8
run B9 C12-m7 C12-m8 C15-m7:C06 C15-m8:C01
run B10 C13-m7 C13-m8 C17-m7 C17-m8
run B2 C02-m7 C02-m8 C14-m7 C14-m8
run B4 C04-m7 C04-m8 C19-m7 C19-m8
run B6 C06-m7 C06-m8 C18-m7 C18-m8
run B7 C07-m7 C07-m8 C08-m7 C08-m8
