#!/usr/bin/env python3
"""Import confirmed seeded changes from the sub-agents' worktrees into /verif/seeded/<id>/ and evaluate each one
with the check of its property on a scratch worktree (VERIF_REPO), never touching /repo.

usage: seed_import.py <agent-worktree> [<agent-worktree> ...]
"""
import sys, os, json, shutil, subprocess, re
V = os.path.dirname(os.path.dirname(os.path.abspath(__file__)))
EVAL = os.environ.get("SEED_EVAL", "/tmp/wt/eval")
# checks of other properties (or the thorough tier) that are also run for a seeded change, where its own property's quick check is not the one that sees it
EXTRA = {"C06-m4": ["C12"], "C02-m4": ["C12"], "C03-m3": ["C13"], "C03-m4": ["C12"], "C04-m4": ["C12"], "C10-m4": ["C12"], "C16-m3": ["C13"],
         "C16-m4": ["C11"], "C20-m4": ["C08"], "C18-m3": ["C12"], "C12-m3": ["C18"], "C15-m4": ["C15@thorough"], "C16-m2": ["C08"], "C12-m2": ["C06"], "C20-m3": ["C19"],
         "C16-m5": ["C13"], "C16-m6": ["C11"], "C03-m6": ["C13"], "C17-m5": ["C13"], "C15-m5": ["C06"], "C15-m6": ["C01"], "C13-m6": ["C17"], "C17-m6": ["C13"],
         "C01-m8": ["C15"], "C20-m7": ["C09"], "C15-m7": ["C06"], "C15-m8": ["C01"], "C06-m7": ["C15"], "C08-m7": ["C15"], "C08-m8": ["C15"], "C02-m7": ["C07"]}


def sh(cmd, **kw):
    return subprocess.run(cmd, shell=True, capture_output=True, text=True, **kw)


def main():
    if not os.path.isdir(EVAL):
        r = sh("git -C /repo worktree add -q --detach %s HEAD" % EVAL)
        if r.returncode:
            raise SystemExit(r.stderr)
    head = sh("git -C /repo rev-parse HEAD").stdout.strip()
    sh("git -C %s checkout -q --detach %s" % (EVAL, head))
    for wt in sys.argv[1:]:
        mdir = os.path.join(wt, "_mutants")
        for mid in sorted(os.listdir(mdir)):
            d = os.path.join(mdir, mid)
            if not re.match(r"C\d\d-m\d+$", mid) or not os.path.exists(os.path.join(d, "patch.diff")):
                continue
            if os.environ.get("SEED_ONLY") and mid not in os.environ["SEED_ONLY"].split(","):
                continue
            conf = {}
            try:
                m = re.search(r"suite_pass=(\d+) demo_with_patch_rc=(\d+) demo_without_rc=(\d+)", open(os.path.join(d, "confirm.txt")).read())
                conf = dict(suite_tests_passing_with_patch=int(m.group(1)), demo_exit_with_patch=int(m.group(2)), demo_exit_without_patch=int(m.group(3)))
            except Exception:
                pass
            if not conf or conf["suite_tests_passing_with_patch"] != 37 or conf["demo_exit_with_patch"] == 0 or conf["demo_exit_without_patch"] != 0:
                print(mid, "NOT CONFIRMED, skipped", conf)
                continue
            out = os.path.join(V, "seeded", mid)
            os.makedirs(out, exist_ok=True)
            for f in os.listdir(d):
                p = os.path.join(d, f)
                if os.path.isfile(p) and os.path.getsize(p) < 200000 and not f.endswith((".o", ".a", ".log", ".result")) and not os.access(p, os.X_OK) or f.endswith(".sh"):
                    if f not in ("confirm.txt",):
                        shutil.copy(p, os.path.join(out, f))
            prop = mid.split("-")[0]
            sh("git -C %s checkout -q -- ." % EVAL)
            r = sh("git -C %s apply %s" % (EVAL, os.path.join(out, "patch.diff")))
            if r.returncode:
                print(mid, "patch does not apply to HEAD", r.stderr[:200])
                continue
            env = dict(os.environ, VERIF_REPO=EVAL)
            runs = []
            for spec in [prop] + EXTRA.get(mid, []):
                chk, _, tier = spec.partition("@")
                tier = tier or "quick"
                r = subprocess.run(["./check", chk, "--tier", tier], cwd=V, env=env, capture_output=True, text=True)
                keys = re.findall(r"^  key: (.*)$", r.stdout, re.M)
                runs.append(dict(check=chk, tier=tier, exit_code=r.returncode, detected=(r.returncode == 1 and len(keys) > 0), violation_keys=keys[:8]))
            sh("git -C %s checkout -q -- ." % EVAL)
            try:
                meta = json.load(open(os.path.join(out, "meta.json")))
            except Exception:
                meta = {}
            meta.update(dict(id=mid, breaks_property=prop, origin="written by a fresh sub-agent that saw only the property text, its own worktree and (rounds m3-m8) a description of what the harness already does",
                             confirmed=conf, confirmed_how="tools/mutant_confirm.sh in the sub-agent's scratch worktree: git apply, touch *.asm, make -j8 check (37 PASS), run_demo.sh with and without the patch",
                             evaluated_with="VERIF_REPO=<scratch worktree with the patch> ./check <Cxx> --tier <tier> for each entry of runs",
                             rebased_onto_head=os.path.exists(os.path.join(out, "patch.orig.diff")), evaluated_on_repo_head=head,
                             runs=runs, detected_by_own_quick_check=runs[0]["detected"], detected=any(x["detected"] for x in runs)))
            json.dump(meta, open(os.path.join(out, "meta.json"), "w"), indent=1)
            print(mid, " ".join("%s@%s=%s" % (x["check"], x["tier"], "DET" if x["detected"] else "miss(rc%d)" % x["exit_code"]) for x in runs))


main()
