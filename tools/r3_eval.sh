#!/bin/sh
# evaluate the third round of seeded changes (own property's quick check, plus a second check where noted)
wt=/tmp/wt/eval2
run() { d=$1; shift; for m in "$@"; do id=${m%%:*}; extra=$(echo "${m#*:}" | tr ',' ' '); [ "$extra" = "$id" ] && extra=""; echo "== $id"; tools/mutant_eval_wt.sh $wt /tmp/wt/$d/_mutants/$id/patch.diff ${id%%-*} $extra; done; }
run A1 C11-m5 C11-m6:C16
run A5 C06-m5 C06-m6 C15-m5:C06 C15-m6:C01
run A7 C10-m5 C10-m6 C16-m5:C13 C16-m6:C11
run A4 C05-m5 C05-m6 C09-m5
run A9 C13-m5 C20-m5 C20-m6
run A10 C17-m5:C13 C18-m5 C18-m6
run A8 C12-m5 C12-m6 C19-m5 C19-m6
run A3 C03-m5 C03-m6:C13 C08-m5 C08-m6
run A2 C02-m5 C02-m6 C04-m5 C04-m6
