"""Registry of engines and checks (what ./check runs for each property)."""

SETUP_VARIANTS = ["plain", "asan", "fips", "tsan", "fips-tsan"]

ENGINES = {
    "hashmb": dict(src=["harness/hashmb.c", "harness/hashbig.c", "harness/hashalgs.c"]),
}

HASH_ALGS = ["sha1", "sha256", "sha512", "md5", "sm3"]
TRUST = [
    "reference oracles in /verif/ref written from the standards and cross-checked against published vectors at start-up",
    "the harness observes the library only at the call boundary and through the public structs of include/*.h",
    "gcc 12 / nasm 2.16 build of /repo's working tree via Makefile.unx flags (+HAVE_AS_KNOWS_AVX512 as ./configure defines on this host), hook ISAL_CRYPTO_VERIF on",
]


def split(total, parts):
    """[(from, count)] covering [0,total)."""
    per = (total + parts - 1) // parts
    out, f = [], 0
    while f < total:
        out.append((f, min(per, total - f)))
        f += per
    return out


def hash_tasks(prop, quick_n, thorough_n, inject, extra=None, variants=("plain",), asan_div=4, parts_q=3, parts_t=3):
    def gen(tier):
        n = quick_n if tier == "quick" else thorough_n
        tasks = []
        for v in variants:
            nn = n if v == "plain" else max(50, n // asan_div)
            for alg in HASH_ALGS:
                for (f, c) in split(nn, parts_q if tier == "quick" else parts_t):
                    tasks.append(dict(engine="hashmb", variant=v,
                                      args=["--prop", prop, "--alg", alg, "--route", "fam,isal,legacy", "--inject", inject,
                                            "--from", f, "--count", c] + (extra or [])))
        return tasks
    return gen


HIST_RULE = ("each case is a seeded random history (pool of 1..3L contexts, 10-80 submit/flush calls, boundary-biased segment lengths, "
             "zero-length segments, context reuse, mid-stream restarts, injected invalid submits) run on every (algorithm, family) pair "
             "through three routes (family symbols, isal_ API and legacy API forced onto the family by the virtual-CPU hook); "
             "distinct_nontrivial counts distinct tuples of (call kind, flags, contexts in flight before the call, segment-length class, "
             "context state, who was handed back) and, for completions, (final length mod 2 blocks, lanes in use, returned-by)")

CHECKS = {
    "C01": dict(
        level="exploration", evaluations="completes", must_observe=["completes", "returned_by_other", "returned_by_flush", "reuses"],
        rule=HIST_RULE + "; evaluations = completed jobs whose digest was compared with the reference hash of the model's byte stream",
        assumptions=TRUST,
        tasks=hash_tasks("C01", 1500, 60000, 5, variants=("plain", "asan")),
    ),
    "C06": dict(
        level="exploration", evaluations="ops", must_observe=["completes", "flushes", "returned_by_other", "idle_returns"],
        rule=HIST_RULE + "; evaluations = library calls checked against the sequential job-accounting model",
        assumptions=TRUST,
        tasks=hash_tasks("C06", 1500, 60000, 8, variants=("plain", "asan")),
    ),
    "C11": dict(
        level="exploration", evaluations="rejects", must_observe=["rejects", "rejects_invalid_flags", "rejects_already_processing", "rejects_already_completed", "completes"],
        rule=HIST_RULE + "; evaluations = injected invalid submits, each compared byte-for-byte (manager, all contexts, buffers) against a snapshot taken just before the call",
        assumptions=TRUST,
        tasks=hash_tasks("C11", 1500, 60000, 22, variants=("plain", "asan")),
    ),
}
