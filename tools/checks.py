"""Registry of engines and checks (what ./check runs for each property)."""

SETUP_VARIANTS = ["plain", "asan", "fips", "tsan", "fips-tsan"]

ENGINES = {
    "hashmb": dict(src=["harness/hashmb.c", "harness/hashbig.c", "harness/hashalgs.c"]),
    "aesdiff": dict(src=["harness/aesdiff.c", "harness/aesfam.c"]),
    "mhroll": dict(src=["harness/mhroll.c"]),
}

DEFAULT_LEVEL_TEXT = ("exploration: the property is checked on every execution of a seeded, boundary-biased workload against an independent oracle; "
                      "held means held on the executions counted in the evidence file, not for all inputs")
NOT_APPLICABLE = {}

HASH_ALGS = ["sha1", "sha256", "sha512", "md5", "sm3"]
TRUST = [
    "reference oracles in /verif/ref written from the standards and cross-checked against published vectors at start-up",
    "the harness observes the library only at the call boundary and through the public structs of include/*.h",
    "gcc 12 / nasm 2.16 build of /repo's working tree via Makefile.unx flags (+HAVE_AS_KNOWS_AVX512 as ./configure defines on this host), hook ISAL_CRYPTO_VERIF on",
]


def split(total, parts):
    """[(from, count)] covering [0,total)."""
    per = (total + parts - 1) // parts
    out, f = [], 0
    while f < total:
        out.append((f, min(per, total - f)))
        f += per
    return out


def hash_tasks(prop, quick_n, thorough_n, inject, extra=None, variants=("plain",), asan_div=4, parts_q=3, parts_t=3):
    def gen(tier):
        n = quick_n if tier == "quick" else thorough_n
        tasks = []
        for v in variants:
            nn = n if v == "plain" else max(50, n // asan_div)
            for alg in HASH_ALGS:
                for (f, c) in split(nn, parts_q if tier == "quick" else parts_t):
                    tasks.append(dict(engine="hashmb", variant=v,
                                      args=["--prop", prop, "--alg", alg, "--route", "fam,isal,legacy", "--inject", inject,
                                            "--from", f, "--count", c] + (extra or [])))
        return tasks
    return gen


def aes_tasks(prop, what, fams, quick_n, thorough_n, parts_q=2, parts_t=4):
    def gen(tier):
        n = quick_n if tier == "quick" else thorough_n
        tasks = []
        for fam in fams:
            for (f, c) in split(n, parts_q if tier == "quick" else parts_t):
                tasks.append(dict(engine="aesdiff", variant="plain",
                                  args=["--prop", prop, "--what", what, "--fam", fam, "--from", f, "--count", c]))
        return tasks
    return gen


def mh_tasks(prop, whats, fams, quick_n, thorough_n, variants=("plain", "asan"), parts_q=1, parts_t=3):
    def gen(tier):
        tasks = []
        for v in variants:
            n = quick_n if tier == "quick" else thorough_n
            if v != "plain":
                n = max(100, n // 4)
            for what in whats:
                for fam in fams:
                    for (f, c) in split(n, parts_q if tier == "quick" else parts_t):
                        tasks.append(dict(engine="mhroll", variant=v,
                                          args=["--prop", prop, "--what", what, "--fam", fam, "--from", f, "--count", c]))
        return tasks
    return gen


MH_FAMS = ["base", "sse", "avx", "avx2", "avx512"]
GCM_FAMS = ["sse", "avx_gen2", "avx_gen4", "vaes_avx512"]
AES_TRUST = TRUST + ["OpenSSL 3.0 EVP as second oracle for inputs longer than 4-8 KiB; ref, OpenSSL and published vectors are cross-checked at start-up"]

HIST_RULE = ("each case is a seeded random history (pool of 1..3L contexts, 10-80 submit/flush calls, boundary-biased segment lengths, "
             "zero-length segments, context reuse, mid-stream restarts, injected invalid submits) run on every (algorithm, family) pair "
             "through three routes (family symbols, isal_ API and legacy API forced onto the family by the virtual-CPU hook); "
             "distinct_nontrivial counts distinct tuples of (call kind, flags, contexts in flight before the call, segment-length class, "
             "context state, who was handed back) and, for completions, (final length mod 2 blocks, lanes in use, returned-by)")

CHECKS = {
    "C01": dict(
        level="exploration", evaluations="completes", must_observe=["completes", "returned_by_other", "returned_by_flush", "reuses"],
        rule=HIST_RULE + "; evaluations = completed jobs whose digest was compared with the reference hash of the model's byte stream",
        assumptions=TRUST,
        tasks=hash_tasks("C01", 1500, 60000, 5, variants=("plain", "asan")),
    ),
    "C06": dict(
        level="exploration", evaluations="ops", must_observe=["completes", "flushes", "returned_by_other", "idle_returns"],
        rule=HIST_RULE + "; evaluations = library calls checked against the sequential job-accounting model",
        assumptions=TRUST,
        tasks=hash_tasks("C06", 1500, 60000, 8, variants=("plain", "asan")),
    ),
    "C11": dict(
        level="exploration", evaluations="rejects", must_observe=["rejects", "rejects_invalid_flags", "rejects_already_processing", "rejects_already_completed", "completes"],
        rule=HIST_RULE + "; evaluations = injected invalid submits, each compared byte-for-byte (manager, all contexts, buffers) against a snapshot taken just before the call",
        assumptions=TRUST,
        tasks=hash_tasks("C11", 1500, 60000, 22, variants=("plain", "asan")),
    ),
    "C02": dict(
        level="exploration", evaluations="gcm_calls", must_observe=["gcm_calls", "cases_sse", "cases_avx_gen2", "cases_avx_gen4", "cases_vaes_avx512"],
        rule=("case c<=1100 uses plaintext length c exactly (every tail of the 8/16/48-block loops), later cases draw lengths around loop edges and up to 64 KiB "
              "(1 MiB in thorough); AAD length (c/5) mod 81 on every fifth case else boundary-biased up to 2 KiB; tag 8/12/16; random data/AAD/IV/tag alignment 0..63, "
              "key-data at 16-byte residues; in-place or out-of-place; _nt variants with 64-byte aligned disjoint buffers; each case runs enc and dec for both key sizes "
              "on the family symbols and on the isal_/legacy API forced onto the family; distinct_nontrivial = distinct (family, key size, direction, nt, in-place, route, "
              "length class, AAD length class, tag length)"),
        assumptions=AES_TRUST,
        tasks=aes_tasks("C02", "gcm", GCM_FAMS, 1500, 60000),
    ),
    "C07": dict(
        level="exploration", evaluations="gcm_update_calls", must_observe=["gcm_calls", "gcm_update_calls", "cases_sse", "cases_avx_gen2", "cases_avx_gen4", "cases_vaes_avx512"],
        rule=("as C02 but the data is fed through init/update*/finalize; partitions are generated in five styles (1-3 byte pieces with empty updates, "
              "pieces chosen relative to the carried residue r: <16-r, =16-r, >16-r, >>16-r, uniform, multiples of 16 +/- tail, mixed) and differ between the "
              "encrypt and decrypt pass; _nt updates use multiples of 64 except the last; outputs and tag are compared with the SP 800-38D reference "
              "(which the one-shot call is compared with in C02); distinct_nontrivial counts (family, carried residue, piece class, direction, key size, nt) cells "
              "plus the C02 case classes"),
        assumptions=AES_TRUST,
        tasks=aes_tasks("C07", "gcmstream", GCM_FAMS, 1500, 60000),
    ),
    "C03": dict(
        level="exploration", evaluations="xts_calls", must_observe=["xts_calls", "xts_short_calls", "cases_sse", "cases_avx", "cases_vaes"],
        rule=("case c<=1100 uses data-unit length c exactly (0..15: both buffers point into PROT_NONE pages for the family/legacy entry points, isal_ must return CIPH_LEN "
              "and modify nothing; 16..1100: every tail with and without stealing), later cases around the 8/16-block loop edges, up to 64 KiB (2^24 and 2^24-1 in thorough); "
              "enc and dec, raw and pre-expanded keys (schedules from the FIPS-197 reference), both key sizes, in-place or disjoint, random alignment of data, keys and tweak; "
              "distinct_nontrivial = distinct (family, key size, dir, expanded, in-place, route, length class)"),
        assumptions=AES_TRUST,
        tasks=aes_tasks("C03", "xts", ["sse", "avx", "vaes"], 1500, 40000),
    ),
    "C04": dict(
        level="exploration", evaluations=["cbc_calls", "keyexp_calls"], must_observe=["cbc_calls", "keyexp_calls", "cases_sse", "cases_avx", "cases_avx512_g2"],
        rule=("key expansion of random and constant-byte keys for 128/192/256 (+128_enc) on both families and both API routes, compared byte for byte with the FIPS-197 "
              "schedule and its equivalent-inverse decryption schedule; CBC with N = c blocks for c in 1..80 then lengths around the 8/16-block loop edges up to 64 KiB "
              "(1 MiB in thorough), enc x4/x8 and dec sse/avx/vaes_avx512, in-place or disjoint, data alignment 0..63, compared with the SP 800-38A reference; "
              "distinct_nontrivial = distinct (family, key size, dir, in-place, route, block-count class) and (key size, key)"),
        assumptions=AES_TRUST,
        tasks=aes_tasks("C04", "cbc", ["sse", "avx", "avx512_g2"], 1500, 40000),
    ),
    "C05": dict(
        level="exploration", evaluations="mh_streams", must_observe=["mh_streams", "mh_update_calls"] + ["cases_" + f for f in MH_FAMS],
        rule=("case c<=2200 hashes a stream of exactly c bytes, later cases lengths 1024k-9..1024k+9, 1024k+1000..1023 (second padding block), random to 256 KiB "
              "(4 MiB in thorough); the stream is cut into update calls in five styles (one call, pieces chosen relative to the carried partial block: empty / under-fill / "
              "exactly complete / overshoot / whole blocks, uniform, up to 3000 bytes, mixed) with trailing zero-length updates; random buffer alignment; context memory "
              "filled with junk before init; all five families via family symbols and via the isal_/legacy API forced onto the family; mh_sha1 and mh_sha256; "
              "distinct_nontrivial = distinct (algorithm, family, carried-partial class, piece class) and (algorithm, family, route, length class)"),
        assumptions=TRUST + ["multi-hash reference built from the statement of C05 on top of the reference SHA-1/SHA-256 compression functions; the [word][segment] interim-digest layout hashed by the outer hash is the library's documented on-disk format"],
        tasks=mh_tasks("C05", ["mh_sha1", "mh_sha256"], MH_FAMS, 2700, 40000),
    ),
    "C10": dict(
        level="exploration", evaluations="mh_streams", must_observe=["mh_streams", "mh_update_calls"] + ["cases_" + f for f in MH_FAMS],
        rule=("as C05 for the stitched mh_sha1_murmur3_x64_128: both outputs are compared, the SHA-1 side with the multi-hash reference and the murmur side with a "
              "reference MurmurHash3_x64_128 (h1=h2=seed) of the whole stream; seeds 0, 1, 2^64-1 and random; stream lengths cover every value of len mod 16 and len mod 1024"),
        assumptions=TRUST,
        tasks=mh_tasks("C10", ["murmur"], MH_FAMS, 2700, 40000),
    ),
    "C09": dict(
        level="exploration", evaluations="rolling_run_calls", must_observe=["rolling_run_calls", "rolling_hits", "rolling_direct_scans", "mask_gen_calls", "cases_base", "cases_00", "cases_04"],
        rule=("case c uses window w = c mod 48 + 1; stream of up to 20000 (64 Ki in thorough) bytes of random / constant / 3-symbol / slowly changing content; mask with 0..16 "
              "random bits or from mask_gen, trigger a subset of mask or 0; the stream is consumed by run calls with max_len 0, 1, <w, =w, w+1, rest, random, resuming where the "
              "previous call stopped; after every call offset+match are compared with a from-scratch evaluation of the table formula at every position, and state hash and "
              "remembered window with the last w bytes; the three scan kernels are forced through the dispatcher and also called directly on identical arguments; "
              "the 256-entry table is compared with a pinned golden copy; mask_gen is checked for all shifts around all powers of two"),
        assumptions=TRUST + ["golden copy of the rolling-hash table taken from the pinned snapshot (the constant defines the on-disk chunking format)"],
        tasks=mh_tasks("C09", ["rolling"], ["base", "00", "04"], 1500, 30000),
    ),
}
