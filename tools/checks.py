"""Registry of engines and checks (what ./check runs for each property)."""

SETUP_VARIANTS = ["plain", "asan", "fips", "tsan", "fips-tsan", "noparam", "fips-noparam", "noarch", "fips-noarch", "fips-noarch-tsan"]

ENGINES = {
    "hashmb": dict(src=["harness/hashmb.c", "harness/hashbig.c", "harness/hashalgs.c"]),
    "aesdiff": dict(src=["harness/aesdiff.c", "harness/aesfam.c"]),
    "mhroll": dict(src=["harness/mhroll.c"]),
    "bounds": dict(src=["harness/bounds.c", "harness/aesfam.c"]),
    "params": dict(src=["harness/params.c", "harness/aesfam.c", "harness/hashalgs.c"]),
    "fips": dict(src=["harness/fips.c", "harness/aesfam.c", "harness/hashalgs.c"], ldflags=["-Wl,--wrap=_aes_self_tests", "-Wl,--wrap=_sha_self_tests"]),
    "fipssched": dict(src=["harness/fipssched.c"], ldflags=["-Wl,--wrap=_aes_self_tests", "-Wl,--wrap=_sha_self_tests", "-Wl,--wrap=usleep"]),
    "threads": dict(src=["harness/threads.c", "harness/aesfam.c", "harness/hashalgs.c"]),
    "dispatch": dict(src=["harness/dispatch.c", "harness/aesfam.c", "harness/hashalgs.c"]),
    "trampeng": dict(src=["harness/trampeng.c", "harness/tramp.c", "harness/tramp.S", "harness/aesfam.c", "harness/hashalgs.c"], ldflags=["-rdynamic"]),
}

DEFAULT_LEVEL_TEXT = ("exploration: the property is checked on every execution of a seeded, boundary-biased workload against an independent oracle; "
                      "held means held on the executions counted in the evidence file, not for all inputs")
NOT_APPLICABLE = {}

HASH_ALGS = ["sha1", "sha256", "sha512", "md5", "sm3"]
TRUST = [
    "reference oracles in /verif/ref written from the standards and cross-checked against published vectors at start-up",
    "the harness observes the library only at the call boundary and through the public structs of include/*.h",
    "gcc 12 / nasm 2.16 build of /repo's working tree via Makefile.unx flags (+HAVE_AS_KNOWS_AVX512 as ./configure defines on this host), hook ISAL_CRYPTO_VERIF on",
]


def split(total, parts):
    """[(from, count)] covering [0,total)."""
    per = (total + parts - 1) // parts
    out, f = [], 0
    while f < total:
        out.append((f, min(per, total - f)))
        f += per
    return out


def hash_tasks(prop, quick_n, thorough_n, inject, extra=None, variants=("plain",), asan_div=4, parts_q=3, parts_t=3):
    def gen(tier):
        n = quick_n if tier == "quick" else thorough_n
        tasks = []
        for v in variants:
            nn = n if v == "plain" else max(50, n // asan_div)
            for alg in HASH_ALGS:
                for (f, c) in split(nn, parts_q if tier == "quick" else parts_t):
                    tasks.append(dict(engine="hashmb", variant=v,
                                      args=["--prop", prop, "--alg", alg, "--route", "fam,isal,legacy", "--inject", inject,
                                            "--from", f, "--count", c] + (extra or [])))
        return tasks
    return gen


def aes_tasks(prop, what, fams, quick_n, thorough_n, parts_q=2, parts_t=4):
    def gen(tier):
        n = quick_n if tier == "quick" else thorough_n
        tasks = []
        for fam in fams:
            for (f, c) in split(n, parts_q if tier == "quick" else parts_t):
                tasks.append(dict(engine="aesdiff", variant="plain",
                                  args=["--prop", prop, "--what", what, "--fam", fam, "--from", f, "--count", c]))
        return tasks
    return gen


def mh_tasks(prop, whats, fams, quick_n, thorough_n, variants=("plain", "asan"), parts_q=1, parts_t=3):
    def gen(tier):
        tasks = []
        for v in variants:
            n = quick_n if tier == "quick" else thorough_n
            if v != "plain":
                n = max(100, n // 4)
            for what in whats:
                for fam in fams:
                    for (f, c) in split(n, parts_q if tier == "quick" else parts_t):
                        tasks.append(dict(engine="mhroll", variant=v,
                                          args=["--prop", prop, "--what", what, "--fam", fam, "--from", f, "--count", c]))
        return tasks
    return gen


def bounds_tasks(tier):
    n = 1300 if tier == "quick" else 30000
    parts = 1 if tier == "quick" else 4
    tasks = []
    plan = [("gcm", GCM_FAMS), ("gcmstream", GCM_FAMS), ("xts", ["sse", "avx", "vaes"]), ("cbc", ["sse", "avx", "avx512_g2"]),
            ("mh", MH_FAMS), ("rolling", ["base", "00", "04"])]
    for what, fams in plan:
        for fam in fams:
            for (f, c) in split(n, parts):
                tasks.append(dict(engine="bounds", variant="plain", args=["--prop", "C08", "--what", what, "--fam", fam, "--from", f, "--count", c]))
    # valgrind memcheck over exact-size heap blocks (sees in-page over-reads that guard pages cannot); families up to AVX2 only
    VG = ["valgrind", "-q", "--error-exitcode=0"]
    vplan = [("gcm", ["sse", "avx_gen2", "avx_gen4"]), ("gcmstream", ["sse", "avx_gen2", "avx_gen4"]), ("xts", ["sse", "avx"]), ("cbc", ["sse", "avx"]), ("mh", ["base", "sse", "avx", "avx2"]), ("rolling", ["base", "00", "04"])]
    vn = 40 if tier == "quick" else 1500
    for what, fams in vplan:
        for fam in (fams[:1] if tier == "quick" else fams):
            tasks.append(dict(engine="bounds", variant="plain", wrap=VG, timeout=3000, args=["--prop", "C08", "--what", what, "--fam", fam, "--heap", 1, "--from", 0, "--count", vn, "--watchdog", 2900]))
    hn = 400 if tier == "quick" else 8000
    for alg in HASH_ALGS:
        tasks.append(dict(engine="hashmb", variant="plain", args=["--prop", "C08", "--alg", alg, "--route", "fam,isal,legacy", "--inject", 5, "--guard", 1, "--from", 0, "--count", hn]))
        tasks.append(dict(engine="hashmb", variant="asan", args=["--prop", "C08", "--alg", alg, "--route", "fam,isal", "--inject", 5, "--from", 0, "--count", hn]))
    return tasks


TRAMP_GROUPS = ["hash", "hashjob", "gcm", "xts", "cbc", "mh", "rolling", "misc"]


def tramp_tasks(prop, mode, groups, quick_n, thorough_n, extra_fips=False):
    def gen(tier):
        n = quick_n if tier == "quick" else thorough_n
        tasks = []
        for g in groups:
            if g == "hash":
                for alg in HASH_ALGS:
                    for (f, c) in split(max(4, n // 8), 1 if tier == "quick" else 2):
                        tasks.append(dict(engine="trampeng", variant="plain", args=["--prop", prop, "--mode", mode, "--what", g, "--alg", alg, "--from", f, "--count", c]))
            else:
                nn = n if g not in ("hashjob", "misc") else max(4, n // 8)
                for (f, c) in split(nn, 2 if tier == "quick" else 4):
                    tasks.append(dict(engine="trampeng", variant="plain", args=["--prop", prop, "--mode", mode, "--what", g, "--from", f, "--count", c]))
        if extra_fips:
            tasks.append(dict(engine="trampeng", variant="fips", args=["--prop", prop, "--mode", mode, "--what", "misc", "--from", 0, "--count", 20]))
        return tasks
    return gen


def abi_expected(libinfo):
    """ABI-bound entry points of the build: global text symbols of assembly objects that are referenced from a compiled C
    object or from a *_multibinary object, plus the public isal_ and legacy API."""
    import subprocess, os, re
    asm_def, c_pub, refs = {}, set(), set()
    for o in libinfo["objs"]:
        path = os.path.join(libinfo["dir"], "obj", o["name"])
        out = subprocess.run(["nm", path], capture_output=True, text=True).stdout
        for ln in out.splitlines():
            p = ln.split()
            if len(p) == 3 and p[1] == "T":
                if "_slver" in p[2] or p[2] == "TABLE":
                    continue
                if o["kind"] == "asm":
                    asm_def[p[2]] = o["name"]
                elif not p[2].startswith("_"):
                    c_pub.add(p[2])
            elif len(p) == 2 and p[0] == "U":
                if o["kind"] == "c" or "multibinary" in o["name"]:
                    refs.add(p[1])
    abi = set(n for n in asm_def if n in refs)
    # public API = the export list of the repository
    exported = set()
    try:
        for ln in open(os.path.join(libinfo.get("repo", "/repo"), "isa-l_crypto.def")):
            m = re.match(r"^(\w+)\s+@\d+", ln.strip())
            if m:
                exported.add(m.group(1))
    except OSError:
        pass
    if exported:
        c_pub = set(n for n in c_pub if n in exported)
    # dispatched entries are reached from C through their own object: they are in refs already
    return abi, c_pub


def abi_post(results, libinfos, counts):
    called = set()
    for r in results:
        for l in r["lines"]:
            if l.get("t") == "called":
                called.update(l["names"])
    problems, info = [], {}
    for variant, li in libinfos.items():
        abi, pub = abi_expected(li)
        if variant != "plain":
            # the fips build only adds the status functions
            abi = set(n for n in abi if n.startswith("asm_"))
            pub = set()
        miss = sorted((abi | pub) - called)
        info["abi_bound_asm_symbols_" + variant] = len(abi)
        info["public_symbols_" + variant] = len(pub)
        if miss:
            problems.append("ABI-bound entry point(s) of the %s build never driven through the trampoline (no descriptor): %s" % (variant, " ".join(miss[:40])))
    info["distinct_functions_called"] = len(called)
    return problems, info


def mix_tasks(prop, tier, rounds_q=1, rounds_t=6):
    """one job with a single submit of 2^31.. bytes among short jobs, for every (algorithm, family)"""
    fams = dict(sha1=["base", "sse", "avx", "avx2", "avx512", "sse_ni", "avx512_ni"], sha256=["base", "sse", "avx", "avx2", "avx512", "sse_ni", "avx512_ni"],
                sha512=["base", "sse", "avx", "avx2", "avx512", "sb_sse4"], md5=["base", "sse", "avx", "avx2", "avx512"], sm3=["base", "avx2", "avx512"])
    return [dict(engine="hashmb", variant="plain", timeout=7000,
                 args=["--prop", prop, "--mode", "big", "--alg", alg, "--fam", f, "--thr", "mix", "--rounds", rounds_q if tier == "quick" else rounds_t, "--watchdog", 6900])
            for alg in HASH_ALGS for f in fams[alg]]


def noarch_hash_tasks(prop, inject, tier, extra=None, n_q=400, n_t=20000):
    """the portable C configuration (make arch=noarch: *_base.c + *_base_aliases.c, files the x86 build never compiles): base code directly and through the isal_/legacy API"""
    return [dict(engine="hashmb", variant="noarch", args=["--prop", prop, "--alg", alg, "--fam", "base", "--route", "fam,isal,legacy", "--inject", inject, "--noarch", 1,
                                                          "--from", 0, "--count", n_q if tier == "quick" else n_t] + (extra or [])) for alg in HASH_ALGS]


def noarch_mh_tasks(prop, whats, tier, n_q=600, n_t=20000):
    return [dict(engine="mhroll", variant="noarch", args=["--prop", prop, "--what", w, "--fam", "base", "--route", "fam,isal,legacy", "--noarch", 1, "--from", 0, "--count", n_q if tier == "quick" else n_t])
            for w in whats]


def lanes_tasks(prop, tier):
    """every lane of a manager holds >= 2^24 blocks at the same time (thorough: two rounds)"""
    fams = dict(sha1=["sse", "avx", "avx2", "avx512", "sse_ni", "avx512_ni"], sha256=["sse", "avx", "avx2", "avx512", "sse_ni", "avx512_ni"],
                sha512=["sse", "avx", "avx2", "avx512"], md5=["sse", "avx", "avx2", "avx512"], sm3=["avx2", "avx512"])
    return [dict(engine="hashmb", variant="plain", timeout=3000,
                 args=["--prop", prop, "--mode", "big", "--alg", alg, "--fam", f, "--thr", "lanes", "--rounds", 1 if tier == "quick" else 2, "--watchdog", 2900])
            for alg in HASH_ALGS for f in fams[alg]]


def wrap_tasks(prop):
    """a buffered partial block followed by one segment that brings the sum of the two lengths to 2^31 / 2^32, per (algorithm, family)"""
    fams = dict(sha1=["base", "sse", "avx", "avx2", "avx512", "sse_ni", "avx512_ni"], sha256=["base", "sse", "avx", "avx2", "avx512", "sse_ni", "avx512_ni"],
                sha512=["base", "sse", "avx", "avx2", "avx512", "sb_sse4"], md5=["base", "sse", "avx", "avx2", "avx512"], sm3=["base", "avx2", "avx512"])
    return [dict(engine="hashmb", variant="plain", timeout=3000, args=["--prop", prop, "--mode", "big", "--alg", alg, "--fam", f, "--thr", "wrap", "--watchdog", 2900])
            for alg in HASH_ALGS for f in fams[alg]]


def pairs_tasks(prop):
    return [dict(engine="hashmb", variant="plain", timeout=3000, args=["--prop", prop, "--mode", "big", "--alg", alg, "--thr", "pairs", "--watchdog", 2900]) for alg in HASH_ALGS]


def big_tasks(tier):
    tasks = []
    fams = dict(sha1=["base", "sse", "avx", "avx2", "avx512", "sse_ni", "avx512_ni"], sha256=["base", "sse", "avx", "avx2", "avx512", "sse_ni", "avx512_ni"],
                sha512=["base", "sse", "avx", "avx2", "avx512", "sb_sse4"], md5=["base", "sse", "avx", "avx2", "avx512"], sm3=["base", "avx2", "avx512"])
    for alg in HASH_ALGS:
        if tier == "quick":
            tasks.append(dict(engine="hashmb", variant="plain", timeout=1500, args=["--prop", "C15", "--mode", "big", "--alg", alg, "--thr", "29", "--watchdog", 1400]))
            tasks.append(dict(engine="hashmb", variant="plain", timeout=1500, args=["--prop", "C15", "--mode", "big", "--alg", alg, "--fam", "avx512", "--thr", "32", "--watchdog", 1400]))
        else:
            for f in fams[alg]:
                tasks.append(dict(engine="hashmb", variant="plain", timeout=7000, args=["--prop", "C15", "--mode", "big", "--alg", alg, "--fam", f, "--thr", "29,32,33", "--rounds", 2, "--watchdog", 6900]))
        # all families, all routes: the running total is moved next to each threshold while a context is idle (see rule)
        tasks.append(dict(engine="hashmb", variant="plain", args=["--prop", "C15", "--alg", alg, "--route", "fam,isal,legacy", "--inject", 3, "--jump", 1, "--from", 1000000, "--count", 600 if tier == "quick" else 20000]))
        # small histories: total_length at every hand-back
        tasks.append(dict(engine="hashmb", variant="plain", args=["--prop", "C15", "--alg", alg, "--route", "fam,isal", "--inject", 4, "--from", 0, "--count", 300 if tier == "quick" else 5000]))
    return tasks


def isal_cover_post(results, libinfos, counts):
    """every exported isal_ symbol of the build must have a descriptor in the engine"""
    import subprocess, os
    called = set()
    for r in results:
        for l in r["lines"]:
            if l.get("t") == "called":
                called.update(l["names"])
    problems, info = [], {}
    for variant, li in libinfos.items():
        out = subprocess.run(["nm", os.path.join(li["dir"], "isa-l_crypto.a")], capture_output=True, text=True).stdout
        syms = set(ln.split()[2] for ln in out.splitlines() if len(ln.split()) == 3 and ln.split()[1] == "T" and ln.split()[2].startswith("isal_"))
        info["isal_entry_points_" + variant] = len(syms)
        miss = sorted(syms - called)
        if miss:
            problems.append("exported isal_ entry point(s) without a descriptor in the %s build: %s" % (variant, " ".join(miss)))
    return problems, info


def params_tasks(tier):
    n = 16 if tier == "quick" else 6000
    # the FIPS_MODE build has its own blocks in the wrappers (key-pair comparison, self-test gate) in front of or behind the parameter checks
    return [dict(engine="params", variant=v, args=["--prop", "C16", "--from", f, "--count", c]) for v in ("plain", "asan", "fips") for (f, c) in split(n if v == "plain" else max(4, n // 4), 8 if v != "fips" else 2)]


def c17_tasks(tier):
    t = []
    q = tier == "quick"
    def w(variant, *args, **kw):
        t.append(dict(engine="fipssched", variant=variant, args=["--prop", "C17"] + list(args), **kw))
    # controlled, seeded random schedules
    for (f, c) in split(8000 if q else 1000000, 8 if q else 16):
        w("fips", "--mode", "sched", "--from", f, "--count", c, "--watchdog", 3000 if q else 20000, timeout=3600 if q else 21000)
    # controlled, systematic: every schedule with exactly P preemptions at protocol instructions
    plans = [(2, 1, 1, 2000), (3, 1, 1, 2000), (4, 1, 1, 2000), (2, 2, 8, 24000)] if q else [(2, 1, 1, 2000), (3, 1, 1, 2000), (4, 1, 1, 2000), (2, 2, 4, 24000), (3, 2, 16, 160000), (2, 3, 16, 1600000)]
    for (thr, pre, parts, space) in plans:
        for (f, c) in split(space, parts):
            w("fips", "--mode", "sched", "--threads", thr, "--preempt", pre, "--from", f, "--count", c, "--watchdog", 3000 if q else 20000, timeout=3600 if q else 21000)
    # free-running stress
    for k in range(2 if q else 4):
        w("fips", "--mode", "stress", "--pool", 8 if k % 2 == 0 else 16, "--from", k * 100000000, "--count", 200000 if q else 20000000, "--budget-s", 60 if q else 900, "--watchdog", 3000)
    w("fips", "--mode", "stress", "--pool", 64, "--from", 0, "--count", 5000 if q else 400000, "--budget-s", 60 if q else 900, "--watchdog", 3000)
    w("fips", "--mode", "stress", "--pool", 4, "--from", 7000000, "--count", 3000, "--stall-s", 20 if q else 60, "--budget-s", 300 if q else 800, "--watchdog", 3000)
    w("fips-tsan", "--mode", "stress", "--pool", 8, "--from", 0, "--count", 5000 if q else 300000, "--budget-s", 60 if q else 900, "--watchdog", 3000)
    # the portable self-test driver (fips/self_tests_generic.c: C11 atomics, usleep in the wait loop), make arch=noarch FIPS_MODE=y
    for (f, c) in split(3000 if q else 300000, 4 if q else 8):
        w("fips-noarch", "--noarch", 1, "--mode", "sched", "--from", f, "--count", c, "--watchdog", 3000 if q else 20000, timeout=3600 if q else 21000)
    w("fips-noarch", "--noarch", 1, "--mode", "stress", "--pool", 16, "--from", 0, "--count", 100000 if q else 5000000, "--budget-s", 40 if q else 600, "--watchdog", 3000)
    w("fips-noarch", "--noarch", 1, "--mode", "stress", "--pool", 4, "--from", 7000000, "--count", 3000, "--stall-s", 8 if q else 20, "--budget-s", 120, "--watchdog", 3000)
    w("fips-noarch-tsan", "--noarch", 1, "--mode", "stress", "--pool", 8, "--from", 0, "--count", 3000 if q else 200000, "--budget-s", 40 if q else 600, "--watchdog", 3000)
    return t


def c17_post(results, libinfos, counts):
    info, done = {}, []
    for k, v in counts.items():
        if k.startswith("systematic_covered_"):
            cfg = k[len("systematic_covered_"):]
            space = 0
            for r in results:
                for l in r["lines"]:
                    if l.get("t") == "max" and l.get("name") == "systematic_space_" + cfg:
                        space = max(space, l["n"])
            info["systematic_" + cfg] = dict(covered=v, space=space, complete=bool(space and v >= space))
            if space and v >= space:
                done.append(cfg)
    if done:
        counts["systematic_complete"] = len(done)
        info["exhaustive_configs"] = sorted(done)
    return [], info


def c18_tasks(tier):
    q = tier == "quick"
    t = []
    def w(engine, variant, *args):
        t.append(dict(engine=engine, variant=variant, args=["--prop", "C18"] + list(args)))
    for (thr, n) in ((2, 3000), (8, 1500), (32, 400)):
        w("threads", "plain", "--mode", "mixed", "--threads", thr, "--from", thr, "--count", n if q else n * 30)
    w("threads", "tsan", "--mode", "mixed", "--threads", 8, "--from", 99, "--count", 300 if q else 6000)
    for vc in ("sse", "avx", "avx2"):
        w("threads", "plain", "--mode", "mixed", "--threads", 8, "--vcpu", vc, "--from", 300 + len(vc), "--count", 1500 if q else 45000)
    # the FIPS_MODE build has code (and static storage) of its own in the wrappers
    w("threads", "fips", "--mode", "mixed", "--threads", 8, "--from", 55, "--count", 1500 if q else 45000)
    w("threads", "fips-tsan", "--mode", "mixed", "--threads", 8, "--from", 77, "--count", 300 if q else 6000)
    for vc in ("host", "avx2", "sse"):
        for part in range(4):
            w("threads", "plain", "--mode", "storm", "--threads", 8 if vc == "host" else 4, "--vcpu", vc, "--nparts", 4, "--part", part, "--count", 1000 if q else 20000)
    w("threads", "tsan", "--mode", "storm", "--threads", 4, "--count", 60 if q else 1500)
    for alg in HASH_ALGS:
        w("hashmb", "plain", "--alg", alg, "--route", "fam,isal", "--threads", 8, "--inject", 5, "--static-watch", 1, "--from", 0, "--count", 150 if q else 4000)
    w("hashmb", "tsan", "--alg", "all", "--route", "isal", "--threads", 6, "--inject", 5, "--from", 0, "--count", 40 if q else 800)
    # the static-storage watch under the workloads of the other engines
    for what in ("gcm", "gcmstream", "xts", "cbc"):
        w("aesdiff", "plain", "--what", what, "--static-watch", 1, "--from", 0, "--count", 200 if q else 3000)
    for what in ("mh_sha1", "mh_sha256", "murmur", "rolling"):
        w("mhroll", "plain", "--what", what, "--static-watch", 1, "--from", 0, "--count", 150 if q else 3000)
    return t


def c12_prepare(tier, run, h):
    """phase 1: trace every bindable family under the single-stepper, classify the executed instructions."""
    import os, json
    import isa_classify
    parts = 16
    files = [os.path.join(h["tmp"], "trace-%d-%d.txt" % (os.getpid(), i)) for i in range(parts)]
    tasks = [dict(engine="dispatch", variant="plain", timeout=3000,
                  args=["--prop", "C12", "--mode", "trace", "--nparts", parts, "--part", i, "--trace-out", files[i], "--watchdog", 2900]) for i in range(parts)]
    run(tasks)
    exe = h["build_engine"]("dispatch", "plain")
    req, stats, assumed, unknown = isa_classify.run(exe, [f for f in files if os.path.exists(f)])
    if unknown:
        h["die"]("tracer saw %d executed address(es) that objdump did not decode, e.g. %s" % (len(unknown), unknown[:3]))
    if len(req) < 100:
        h["die"]("trace phase produced instruction profiles for only %d targets" % len(req))
    reqfile = os.path.join(h["tmp"], "c12-req-%d.txt" % os.getpid())
    with open(reqfile, "w") as f:
        for t, fs in sorted(req.items()):
            f.write("%s %x\n" % (t, isa_classify.mask(fs)))
    for fn in files:
        try:
            os.unlink(fn)
        except OSError:
            pass
    fams = {}
    for t, fs in req.items():
        fams[t] = "+".join(sorted(fs)) or "baseline"
    return dict(reqfile=reqfile, profiles=len(req), assumed=assumed,
                sample_profiles={k: fams[k] for k in sorted(fams)[:400]}, instr_counts={k: stats[k]["total"] for k in sorted(stats)[:400]})


_c12_state = {}


def c12_tasks(tier, prep=None):
    if prep is None:            # setup: just name the engine
        return [dict(engine="dispatch", variant="plain", args=[])]
    _c12_state["prep"] = prep
    parts = 16
    return [dict(engine="dispatch", variant="plain", timeout=7000,
                 args=["--prop", "C12", "--mode", "observe", "--req", prep["reqfile"], "--nparts", parts, "--part", i, "--watchdog", 6900]) for i in range(parts)]


def c12_post(results, libinfos, counts):
    prep = _c12_state.get("prep", {})
    space = 0
    for r in results:
        for l in r["lines"]:
            if l.get("t") == "max" and l.get("name") == "configuration_space":
                space = max(space, l["n"])
    info = dict(instruction_profiles=prep.get("profiles"), features_required_per_target=prep.get("sample_profiles"), executed_instructions_per_target=prep.get("instr_counts"),
                legacy_simd_mnemonics_assumed_present=prep.get("assumed"), configuration_space=space)
    problems = []
    if space and counts.get("configurations", 0) >= space:
        counts["configs_complete"] = 1
    else:
        problems.append("only %d of %d configurations were evaluated" % (counts.get("configurations", 0), space))
    return problems, info


MH_FAMS = ["base", "sse", "avx", "avx2", "avx512"]
GCM_FAMS = ["sse", "avx_gen2", "avx_gen4", "vaes_avx512"]
AES_TRUST = TRUST + ["OpenSSL 3.0 EVP as second oracle for inputs longer than 4-8 KiB; ref, OpenSSL and published vectors are cross-checked at start-up"]

HIST_RULE = ("each case is a seeded random history (pool of 1..3L contexts, 10-80 submit/flush calls, boundary-biased segment lengths, "
             "zero-length segments, context reuse, mid-stream restarts, injected invalid submits; a fifth of the messages lie across a 4 GiB-aligned address "
             "in the plain build, counter messages_across_4GiB_boundary) run on every (algorithm, family) pair "
             "through three routes (family symbols, isal_ API and legacy API forced onto the family by the virtual-CPU hook); "
             "distinct_nontrivial counts distinct tuples of (call kind, flags, contexts in flight before the call, segment-length class, "
             "context state, who was handed back) and, for completions, (final length mod 2 blocks, lanes in use, returned-by)")

CHECKS = {
    "C01": dict(
        technique="runtime differential oracle: reference/OpenSSL digest of the model's byte stream for every completed job over seeded submit/flush histories on all 28 families x 3 routes, lane-magnitude probe, AddressSanitizer build",
        level="exploration", evaluations="completes", must_observe=["completes", "returned_by_other", "returned_by_flush", "reuses"],
        rule=HIST_RULE + "; evaluations = completed jobs whose digest was compared with the reference hash of the model's byte stream; in addition, per SIMD (algorithm, family), a manager whose lanes all hold "
             "single segments of at least 2^24 blocks at the same time (distinct lengths, OpenSSL streaming oracle), and the lane-magnitude probe described under C06",
        assumptions=TRUST,
        tasks=lambda tier: hash_tasks("C01", 1500, 60000, 5, variants=("plain", "asan"))(tier) + pairs_tasks("C01") + lanes_tasks("C01", tier) + noarch_hash_tasks("C01", 5, tier) + (mix_tasks("C01", tier) if tier == "thorough" else []),
    ),
    "C06": dict(
        technique='online history checker: sequential job-accounting model at the call boundary + manager count/owner invariants, lane-magnitude probe, AddressSanitizer build',
        level="exploration", evaluations="ops", must_observe=["completes", "flushes", "returned_by_other", "idle_returns"],
        rule=HIST_RULE + "; evaluations = library calls checked against the sequential job-accounting model; in addition a lane-relation probe runs on every SIMD (algorithm, family): for every ordered pair of lane positions (huge, shortest) a manager is filled (submit path) "
             "or filled but for one lane and flushed (flush path) with one job whose single submit is 2^31..2^32-1 bytes, a unique shortest job and distinct medium ones (the packed length words inside the "
             "managers reach their sign bit); whatever is handed back first must be complete with the reference digest (exhaustive over the pairs; the manager is then abandoned). thorough also completes such mixed-size sets",
        assumptions=TRUST,
        tasks=lambda tier: hash_tasks("C06", 1500, 60000, 8, variants=("plain", "asan"))(tier) + pairs_tasks("C06") + noarch_hash_tasks("C06", 8, tier) + (mix_tasks("C06", tier) if tier == "thorough" else []),
    ),
    "C11": dict(
        technique='byte-image comparison (manager, all contexts, buffers) across injected invalid submits + job model + digest oracle over the rest of the history',
        level="exploration", evaluations="rejects", must_observe=["rejects", "rejects_invalid_flags", "rejects_already_processing", "rejects_already_completed", "completes"],
        rule=HIST_RULE + "; evaluations = injected invalid submits, each compared byte-for-byte (manager, all contexts, buffers) against a snapshot taken just before the call",
        assumptions=TRUST,
        tasks=lambda tier: hash_tasks("C11", 1500, 60000, 22, variants=("plain", "asan"))(tier) + noarch_hash_tasks("C11", 22, tier),
    ),
    "C02": dict(
        technique='runtime differential oracle: SP 800-38D reference (bitwise GHASH) / OpenSSL vs every family and route, every length 0..1100 plus boundary and 512 MiB messages',
        level="exploration", evaluations="gcm_calls", must_observe=["gcm_calls", "cases_sse", "cases_avx_gen2", "cases_avx_gen4", "cases_vaes_avx512"],
        rule=("case c<=1100 uses plaintext length c exactly (every tail of the 8/16/48-block loops), cases 1101..1400 every block count 230..329 with tails 0/1/15 "
              "(each unrolled counter-increment site meets the wrap of the low counter byte), later cases draw lengths around loop edges and up to 64 KiB "
              "(1 MiB in thorough); AAD length (c/5) mod 81 on every fifth case else boundary-biased up to 2 KiB; tag 8/12/16; random data/AAD/IV/tag alignment 0..63, "
              "key-data at 16-byte residues; in-place or out-of-place; _nt variants with 64-byte aligned disjoint buffers; each case runs enc and dec for both key sizes "
              "on the family symbols and on the isal_/legacy API forced onto the family; one message of 2^29+17 bytes per family and key size (bit length beyond 32 bits; thorough also 2^31+5 and 2^32+33 bytes), "
              "encrypted one-shot in place and decrypted streamed, against OpenSSL; one call of 2^32+289 bytes per family (byte length beyond 32 bits, 16..31-block tail) through a periodic memfd mirror; AAD of 2^29+33 and exactly 2^32 bytes on every family and of 2^32+4113 bytes on vaes_avx512 "
              "(thorough: both on every family and key size), one-shot and init/update/finalize, against OpenSSL; a quarter of the cases have their buffers around a 4 GiB-aligned address; "
              "distinct_nontrivial = distinct (family, key size, direction, nt, in-place, route, "
              "length class, AAD length class, tag length)"),
        assumptions=AES_TRUST,
        tasks=lambda tier: aes_tasks("C02", "gcm", GCM_FAMS, 1500, 60000)(tier)
        + [dict(engine="aesdiff", variant="plain", timeout=3000, args=["--prop", "C02", "--what", "gcmhuge", "--fam", fam, "--from", 0, "--count", 1, "--watchdog", 2900]) for fam in GCM_FAMS]
        + [dict(engine="aesdiff", variant="plain", timeout=3000, args=["--prop", "C02", "--what", "gcmaadhuge", "--fam", fam, "--from", 0, "--count", 1, "--watchdog", 2900]) for fam in GCM_FAMS]
        + [dict(engine="aesdiff", variant="plain", timeout=3000, args=["--prop", "C02", "--what", "gcmhuge2", "--fam", fam, "--from", 0, "--count", 1, "--watchdog", 2900]) for fam in GCM_FAMS],
    ),
    "C07": dict(
        technique='runtime differential oracle over update segmentations (carried-residue x piece-class coverage) vs the SP 800-38D reference',
        level="exploration", evaluations="gcm_update_calls", must_observe=["gcm_calls", "gcm_update_calls", "cases_sse", "cases_avx_gen2", "cases_avx_gen4", "cases_vaes_avx512"],
        rule=("as C02 but the data is fed through init/update*/finalize; partitions are generated in five styles (1-3 byte pieces with empty updates, "
              "pieces chosen relative to the carried residue r: <16-r, =16-r, >16-r, >>16-r, uniform, multiples of 16 +/- tail, mixed) and differ between the "
              "encrypt and decrypt pass; _nt updates use multiples of 64 except the last; outputs and tag are compared with the SP 800-38D reference "
              "(which the one-shot call is compared with in C02); per family one stream with updates of 1, exactly 2^32 and 9 bytes (128-bit key; thorough both key sizes) against OpenSSL; distinct_nontrivial counts (family, carried residue, piece class, direction, key size, nt) cells "
              "plus the C02 case classes"),
        assumptions=AES_TRUST,
        tasks=lambda tier: aes_tasks("C07", "gcmstream", GCM_FAMS, 1500, 60000)(tier)
        + [dict(engine="aesdiff", variant="plain", timeout=3000, args=["--prop", "C07", "--what", "gcmhuge2", "--fam", fam, "--from", 0, "--count", 1, "--watchdog", 2900]) for fam in GCM_FAMS],
    ),
    "C03": dict(
        technique='runtime differential oracle: IEEE 1619 reference / OpenSSL vs every family and route; PROT_NONE buffers for lengths below 16',
        level="exploration", evaluations="xts_calls", must_observe=["xts_calls", "xts_short_calls", "cases_sse", "cases_avx", "cases_vaes"],
        rule=("case c<=1100 uses data-unit length c exactly (0..15: both buffers point into PROT_NONE pages for the family/legacy entry points, isal_ must return CIPH_LEN "
              "and modify nothing; 16..1100: every tail with and without stealing), cases 1101/1102 use the documented maximum 2^24 and 2^24-1 bytes, later cases lie around the 8/16-block loop edges, up to 64 KiB; "
              "enc and dec, raw and pre-expanded keys (schedules from the FIPS-197 reference), both key sizes, in-place or disjoint, random alignment of data, keys and tweak; "
              "distinct_nontrivial = distinct (family, key size, dir, expanded, in-place, route, length class)"),
        assumptions=AES_TRUST,
        tasks=aes_tasks("C03", "xts", ["sse", "avx", "vaes"], 1500, 200000, parts_t=6),
    ),
    "C04": dict(
        technique='runtime differential oracle: FIPS-197 key schedules and SP 800-38A CBC reference vs every family and route',
        level="exploration", evaluations=["cbc_calls", "keyexp_calls"], must_observe=["cbc_calls", "keyexp_calls", "cases_sse", "cases_avx", "cases_avx512_g2"],
        rule=("key expansion of random and constant-byte keys for 128/192/256 (+128_enc) on both families and both API routes, compared byte for byte with the FIPS-197 "
              "schedule and its equivalent-inverse decryption schedule; CBC with N = c blocks for c in 1..80 then lengths around the 8/16-block loop edges up to 64 KiB "
              "(1 MiB in thorough), enc x4/x8 and dec sse/avx/vaes_avx512, in-place or disjoint, data alignment 0..63, compared with the SP 800-38A reference; one decrypt call of 2^32+4096+48 bytes per family "
              "(thorough: all key sizes, encrypt too) against OpenSSL; "
              "distinct_nontrivial = distinct (family, key size, dir, in-place, route, block-count class) and (key size, key)"),
        assumptions=AES_TRUST,
        tasks=lambda tier: aes_tasks("C04", "cbc", ["sse", "avx", "avx512_g2"], 1500, 40000)(tier)
        + [dict(engine="aesdiff", variant="plain", timeout=3000, args=["--prop", "C04", "--what", "cbchuge", "--fam", fam, "--from", 0, "--count", 1, "--watchdog", 2900]) for fam in ("sse", "avx", "avx512_g2")],
    ),
    "C05": dict(
        technique='runtime differential oracle: multi-hash definition built on reference SHA-1/SHA-256 vs every family, route and update segmentation; AddressSanitizer build',
        level="exploration", evaluations="mh_streams", must_observe=["mh_streams", "mh_update_calls"] + ["cases_" + f for f in MH_FAMS],
        rule=("case c<=2200 hashes a stream of exactly c bytes, later cases lengths 1024k-9..1024k+9, 1024k+1000..1023 (second padding block), random to 256 KiB "
              "(4 MiB in thorough); the stream is cut into update calls in five styles (one call, pieces chosen relative to the carried partial block: empty / under-fill / "
              "exactly complete / overshoot / whole blocks, uniform, up to 3000 bytes, mixed) with trailing zero-length updates; random buffer alignment; context memory "
              "filled with junk before init and placed at 0 or 8 modulo 16 (the type guarantees 8); all five families via family symbols and via the isal_/legacy API forced onto the family; mh_sha1 and mh_sha256; "
              "one stream of 2^29+100 bytes per family (bit length beyond 32 bits; thorough also 2^31+53 and 2^32-77) against an oracle built on OpenSSL's block transforms; "
              "distinct_nontrivial = distinct (algorithm, family, carried-partial class, piece class) and (algorithm, family, route, length class)"),
        assumptions=TRUST + ["multi-hash reference built from the statement of C05 on top of the reference SHA-1/SHA-256 compression functions; the [word][segment] interim-digest layout hashed by the outer hash is the library's documented on-disk format"],
        tasks=lambda tier: mh_tasks("C05", ["mh_sha1", "mh_sha256"], MH_FAMS, 2700, 40000)(tier) + noarch_mh_tasks("C05", ["mh_sha1", "mh_sha256"], tier)
        + [dict(engine="mhroll", variant="plain", timeout=3000, args=["--prop", "C05", "--what", w, "--fam", f, "--from", 0, "--count", 1, "--watchdog", 2900]) for w in ("mh_sha1_huge", "mh_sha256_huge") for f in MH_FAMS],
    ),
    "C10": dict(
        technique='runtime differential oracle: reference multi-hash SHA-1 and reference MurmurHash3_x64_128 vs every family and route',
        level="exploration", evaluations="mh_streams", must_observe=["mh_streams", "mh_update_calls"] + ["cases_" + f for f in MH_FAMS],
        rule=("as C05 for the stitched mh_sha1_murmur3_x64_128: both outputs are compared, the SHA-1 side with the multi-hash reference and the murmur side with a "
              "reference MurmurHash3_x64_128 (h1=h2=seed) of the whole stream; seeds 0, 1, 2^64-1 and random; stream lengths cover every value of len mod 16 and len mod 1024; "
              "one stream of 2^31+53 bytes per family (thorough also 2^29+100 and 2^32-77)"),
        assumptions=TRUST,
        tasks=lambda tier: mh_tasks("C10", ["murmur"], MH_FAMS, 2700, 40000)(tier) + noarch_mh_tasks("C10", ["murmur"], tier)
        + [dict(engine="mhroll", variant="plain", timeout=3000, args=["--prop", "C10", "--what", "murmur_huge", "--fam", f, "--from", 0, "--count", 1, "--watchdog", 2900]) for f in MH_FAMS],
    ),
    "C09": dict(
        technique='runtime differential oracle: from-scratch evaluation of the table formula at every position vs the three scan kernels, forced through the dispatcher and called directly; pinned golden table',
        level="exploration", evaluations="rolling_run_calls", must_observe=["rolling_run_calls", "rolling_hits", "rolling_direct_scans", "mask_gen_calls", "cases_base", "cases_00", "cases_04"],
        rule=("case c uses window w = c mod 48 + 1; stream of up to 20000 (64 Ki in thorough) bytes of random / constant / 3-symbol / slowly changing content; mask with 0..16 "
              "random bits or from mask_gen, trigger a subset of mask or 0; the stream is consumed by run calls with max_len 0, 1, <w, =w, w+1, rest, random, resuming where the "
              "previous call stopped; after every call offset+match are compared with a from-scratch evaluation of the table formula at every position, and state hash and "
              "remembered window with the last w bytes; the three scan kernels are forced through the dispatcher and also called directly on identical arguments; "
              "the 256-entry table is compared with a pinned golden copy; mask_gen is checked for all shifts around all powers of two; the state memory is junk before init, in a quarter of the cases "
              "junk whose every word equals the requested window; per scan kernel two single run calls over more than 2^31 bytes of random data (hit just below / above 2^31) against an incremental model"),
        assumptions=TRUST + ["golden copy of the rolling-hash table taken from the pinned snapshot (the constant defines the on-disk chunking format)"],
        tasks=lambda tier: mh_tasks("C09", ["rolling"], ["base", "00", "04"], 1500, 150000, parts_t=5)(tier) + noarch_mh_tasks("C09", ["rolling"], tier)
        + [dict(engine="mhroll", variant="plain", timeout=3000, args=["--prop", "C09", "--what", "rolling_huge", "--fam", f, "--from", 0, "--count", 1, "--watchdog", 2900]) for f in ("base", "00", "04")],
    ),
    "C08": dict(
        technique='guard pages + read-only mappings + canaries around exact-size buffers, AddressSanitizer on the C layers, valgrind memcheck on exact-size heap blocks',
        level="exploration", evaluations=["guarded_calls", "ops"], must_observe=["guarded_calls", "fam_runs", "cbc_len0_calls", "ops"],
        rule=("every argument buffer is exactly as long as the API states and is placed at random end-flush / start-flush / mid (canary-filled slack) against PROT_NONE pages; "
              "inputs (data, AAD, 12-byte IV, tweak, keys, schedules, constant key data, rolling window) are mapped read-only during the call; zero-length buffers point at an "
              "inaccessible page; lengths: every value 0..1100 (GCM, XTS 16..1116), 16*N for N in 0..80 (CBC, incl. 0), 0..1200 (multi-hash), windows 1..48 with max_len 0/<w/=w/w+1.. "
              "(rolling, buffer start-flush so buffer[i-w] would fault), plus random larger; GCM one-shot/stream/nt/precompute, XTS raw/expanded, CBC, key expansion, multi-hash "
              "update/finalize (digest outputs exactly 20/32/16 bytes), rolling init/reset/run, and hash submit/flush histories with each segment in its own exact read-only mapping; "
              "all families via family symbols, isal_ and legacy API (forced dispatch); a SIGSEGV outside the supplied ranges, a write into an input or a damaged canary is a violation; "
              "the same hash histories also run on an AddressSanitizer build of the C layers; distinct_nontrivial = distinct (operation, family, key size, direction, route, in-place, length class)"),
        assumptions=TRUST + ["reads that stay inside the page of a mid-placed buffer are invisible to guard pages (end/start placements cover both sides); the <64-byte slack of 64-byte aligned nt buffers is only canary-checked for writes",
                             "internal family symbols are called the way the library's own wrappers call them"],
        tasks=lambda tier: bounds_tasks(tier) + wrap_tasks("C08"),
    ),
    "C19": dict(
        technique='register/stack trampoline with sentinels, canaries, non-default MXCSR/x87 control word and varying stack alignment around every ABI-bound entry point (set computed from nm)',
        level="exploration", evaluations="tramp_calls", must_observe=["tramp_calls", "scenarios"],
        rule=("every library call of a scenario is made through a trampoline on a private stack: sentinels in rbx, rbp, r12-r15, patterns in all other registers, "
              "non-default MXCSR rounding and x87 control word, canary words above the callee's stack arguments; after the call rsp, the six callee-saved registers, DF, "
              "MXCSR control bits, the x87 control word and the canaries are compared. Scenarios: hash managers at context level (5 algorithms x all families x family/isal_/legacy/"
              "dispatched-entry routes, submits into empty..full managers, rejected submit, flush with 0..n live lanes), job-level assembly managers called directly, GCM "
              "(key setup, one-shot, nt, init/update/finalize over 44 length classes), XTS (39 length classes incl. <16), CBC and key expansion, multi-hash update/finalize and the "
              "assembly block functions, rolling-hash API and the three scan kernels (9 arguments, 3 on the stack), sha512_sse4, version and FIPS status functions; dispatched entries are "
              "re-armed so the resolver's push/pop ladder runs under the trampoline. The set of ABI-bound symbols is computed from nm of the build (assembly globals referenced from C "
              "or multibinary objects + public API) and a symbol never driven is a harness error. distinct_nontrivial = distinct (function, argument class)"),
        assumptions=TRUST + ["internal kernels reached only from other assembly with private register conventions (e.g. sha256_mb_x8_avx2) are outside the property and are not called directly"],
        tasks=tramp_tasks("C19", "abi", TRAMP_GROUPS, 160, 20000, extra_fips=True), post=abi_post,
    ),
    "C14": dict(
        technique='register/stack trampoline: scan of zmm0-31 and 64 KiB of dead stack for reference-computed secret blocks after every AES call',
        level="exploration", evaluations="tramp_calls", must_observe=["tramp_calls", "scenarios"],
        rule=("AES scenarios (GCM key setup/one-shot/nt/stream, XTS raw and expanded, CBC, key expansion; all families; family, isal_, legacy and dispatched-entry routes; 44/39/27 "
              "length classes) run through the trampoline with random keys; after every call all 32 vector registers (each 16-byte lane of the full 512 bits) and the 64 KiB below "
              "the caller's stack pointer (every byte offset; the zone is pattern-filled right before the call) are searched for the case's secret blocks computed by the reference: "
              "raw key halves, every encryption and decryption round key, GHASH key H raw and byte-reflected, every 16-byte entry of the hash-key table as stored by precompute, "
              "E_K2(tweak). The same scenarios also run on a build with SAFE_PARAM=n (SAFE_DATA is a separate, still default option there). distinct_nontrivial = distinct (function, argument class)"),
        assumptions=TRUST + ["a secret kept in another encoding (masked, split across registers) is not recognised; general-purpose registers are not scanned (the property names vector registers and stack)"],
        tasks=lambda tier: tramp_tasks("C14", "secrets", ["gcm", "xts", "cbc"], 400, 60000)(tier)
        + [dict(engine="trampeng", variant="noparam", args=["--prop", "C14", "--mode", "secrets", "--what", g, "--from", 0, "--count", 60 if tier == "quick" else 1500]) for g in ("gcm", "xts", "cbc")],
    ),
    "C20": dict(
        technique='paired executions that differ only in hidden state (registers, flags, dead stack, uninitialised object memory, output prefill), valgrind memcheck uninitialised-value tracking',
        level="exploration", evaluations=["paired_scenarios", "paired_histories"], must_observe=["paired_scenarios", "paired_histories", "tramp_calls"],
        rule=("every scenario/history is executed three times with identical declared inputs and identical object addresses but different hidden state: "
              "A = all-zero, B = all-ones, C = seeded random patterns in (i) output-buffer prefill, (ii) manager/context/key-data/state memory before the API initialises it, "
              "(iii) all caller-saved GPRs that are not arguments, zmm0-31, k0-7, arithmetic flags, (iv) the 256 KiB of dead stack below the call, and for public C entry points "
              "(v) the upper halves of registers carrying 32-bit arguments. Observables hashed and compared: return values, returned-context identities, status/error fields, "
              "digests, tags, output bytes, offsets/matches and everything observable in the rest of the scenario. Scenarios: trampoline scenarios of C19 (all groups, all families, "
              "four routes) plus hashmb histories (all 28 hash families x 3 routes) run under 0x00 / 0xff / random junk in manager and context memory"),
        assumptions=TRUST + ["a dependence on hidden state that happens not to change any observable for the three patterns is missed (valgrind memcheck's uninitialised-value tracking over the base/sse/avx/avx2 hash families, with manager and context memory marked undefined before the API initialises it, covers part of that gap)",
                             "internal assembly entries receive zero-extended 32-bit arguments, as the library's own compiled C passes them"],
        tasks=lambda tier: tramp_tasks("C20", "hidden", TRAMP_GROUPS, 120, 12000)(tier) + hash_tasks("C20", 300, 20000, 6, extra=["--pair", 1], parts_q=1, parts_t=3)(tier)
        + [dict(engine="hashmb", variant="plain", wrap=["valgrind", "-q", "--error-exitcode=0"], timeout=3000,
                args=["--prop", "C20", "--alg", alg, "--fam", "base,sse,avx,avx2", "--route", "fam,isal", "--uninit", 1, "--inject", 0, "--from", 0, "--count", 15 if tier == "quick" else 600, "--watchdog", 2900]) for alg in HASH_ALGS],
    ),
    "C15": dict(
        technique='OpenSSL oracle over multi-GiB periodic streams (memfd mirror) with adversarial segmentations, state-advanced histories across the thresholds, lane-magnitude probe, long-life manager run',
        level="exploration", evaluations=["big_handbacks", "completes"], must_observe=["big_jobs_completed", "big_jobs_2^29", "big_jobs_2^32", "big_handbacks", "big_single_submits_ge_2^31", "big_zero_length_updates", "length_jumps"],
        rule=("per (algorithm, family) a manager is filled with lanes+1 jobs that all hash the same periodic multi-GiB stream (64 MiB memfd mirrored back to back) with different "
              "segmentations: a segment boundary at the threshold, 1/63/64 bytes below or above it, zero-length UPDATEs exactly at it, single submits of 2^32-1, 2^32-64, 2^31 bytes, "
              "random further cuts, final totals with residues 0..3 blocks; after every hand-back total_length is compared with the sum of accepted segment lengths and each completed "
              "digest with an OpenSSL streaming pass over the same bytes (snapshots at each total; cross-validated with the reference on a prefix). quick: real streams across 2^29 on all 28 pairs and across 2^32 on the avx512 family of each algorithm; thorough: real streams across 2^29, 2^32 and 2^32+2^29 on all 28 pairs, two rounds. "
              "In both tiers random histories on all 28 pairs x 3 routes additionally move an idle context's documented running total (and the model's) forward by whole blocks to just below a threshold, so the following segments cross it at every residue without hashing gigabytes (the expected digest is the reference hash of the submitted bytes padded with the adjusted total). Small random histories add the total_length check at every hand-back. "
              "distinct_nontrivial = distinct (family, threshold, running total mod 2 blocks, flags, above/below threshold)"),
        assumptions=TRUST + ["OpenSSL 3.0 EVP digests as oracle for multi-GiB streams"],
        tasks=lambda tier: big_tasks(tier) + pairs_tasks("C15") + lanes_tasks("C15", tier) + wrap_tasks("C15") + noarch_hash_tasks("C15", 3, tier, extra=["--jump", 1]) + ([dict(engine="hashmb", variant="plain", timeout=7000, args=["--prop", "C15", "--mode", "big", "--alg", alg, "--fam", f, "--thr", "decay", "--watchdog", 6900])
                                                                      for alg, fl in (("sha1", ["sse", "avx", "avx2", "avx512", "sse_ni", "avx512_ni"]), ("sha256", ["sse", "avx", "avx2", "avx512", "sse_ni", "avx512_ni"]), ("sha512", ["sse", "avx", "avx2", "avx512"]),
                                                                                      ("md5", ["sse", "avx", "avx2", "avx512"]), ("sm3", ["avx2", "avx512"])) for f in fl] if tier == "thorough" else []),
    ),
    "C16": dict(
        technique='exhaustive NULL-subset enumeration with PROT_NONE decoys, out-of-domain scalars with byte-image comparison, legacy vs isal_ differential',
        level="exploration", evaluations=["null_subset_calls", "bad_scalar_calls", "valid_calls", "legacy_comparisons"],
        must_observe=["null_subset_calls", "bad_scalar_calls", "valid_calls", "legacy_comparisons", "entries_described"],
        rule=("for each of the 69 argument-taking isal_ entry points (table checked against nm of the build; the 3 others take no arguments): (a) every non-empty subset of its pointer "
              "arguments is NULL while every other pointer aims into a PROT_NONE region, scalars chosen so that no NULL is permitted: a fault, a zero return or a code that is not the "
              "documented code of a missing argument is a violation (exhaustive over the subsets); (b) each out-of-domain scalar (GCM len > MAX, tag length not 8/12/16, XTS len <16 or >2^24, CBC len "
              "not a multiple of 16, window 0/49/64/2^32-1, hash flags outside 0..3) with all pointers valid: the documented code must come back and every argument object must be "
              "byte-identical afterwards (the context error field of a rejected hash submit is the documented channel and exempt); (c) in-domain variants incl. the permitted NULLs "
              "(GCM in/out with len 0, AAD with aad_len 0, hash buffer with FIRST/LAST or len 0 for SM3) must return 0; (d) legacy entry points vs isal_ counterparts on random valid "
              "inputs (GCM pre/one-shot/nt/stream, XTS raw/expanded, CBC, key expansion, aes_cbc_precomp, 5 hash managers, mh_sha1/mh_sha256/murmur incl. *_base, rolling, mask_gen) byte for byte"),
        assumptions=TRUST + ["documented codes are those the sources/param tests assign to each argument; when several arguments are bad any of their codes is accepted"],
        tasks=params_tasks, post=isal_cover_post, exhaustive_key="null_subset_calls", exhaustive_over="the NULL subsets of the pointer arguments of every isal_ entry point (part a)",
    ),
    "C13": dict(
        technique='fault enumeration: --wrap interception of the self-tests with injected verdicts x every exported entry point; dispatch-slot resolution as crypto-work monitor',
        level="fault_enumeration", evaluations=["fips_calls", "xts_key_pair_calls"], must_observe=["fips_calls", "xts_key_pair_calls", "entries_described"],
        level_text=("fault enumeration: the finite space (exported isal_ entry point) x (self-test state: failed / passed / not run with an injected failing verdict / not run with a passing "
                    "verdict) is enumerated completely, each cell with seeded random otherwise-valid arguments; XTS entries additionally with identical / last-byte-different / "
                    "first-byte-different key pairs"),
        rule=("FIPS_MODE build, self-test bodies intercepted with --wrap (counted; verdict injected: fail without running, fail after really running, only the SHA group failing, pass without running, really run; and the real self-tests made to fail by themselves "
              "through one flipped bit in the writable known-answer data of any non-empty subset of the groups SHA-512 / GCM / CBC / XTS during the first call only - the failed verdict must stick on the next call). The same cells also run on a FIPS_MODE build with SAFE_PARAM=n. "
              "For every cell the return code must be SELF_TEST (approved algorithm while failed / failing), FIPS_INVALID_ALGO (MD5, SM3, multi-hash, rolling; every state) or 0; when a call "
              "must be refused every argument object must be byte-identical afterwards and no dispatch slot (all 64 re-armed before the call) may have been resolved, i.e. no dispatched "
              "crypto routine entered; on a first call the AES and SHA self-tests must each be entered exactly once, no slot may be resolved before they start, and the verdict must be "
              "published. The entry list is checked against nm of the FIPS build. distinct_nontrivial = distinct (entry, state, injection mode) and (xts entry, key-pair variant)"),
        assumptions=TRUST + ["crypto work is observed through resolution of re-armed dispatch slots (every approved algorithm reaches its kernels through a dispatched entry)"],
        tasks=lambda tier: [dict(engine="fips", variant="fips", args=["--prop", "C13", "--from", f, "--count", c]) for (f, c) in split(48 if tier == "quick" else 20000, 8 if tier == "quick" else 16)]
        + [dict(engine="fips", variant="fips-noparam", args=["--prop", "C13", "--from", f, "--count", c]) for (f, c) in split(12 if tier == "quick" else 600, 4)]
        # the portable self-test driver (fips/self_tests_generic.c, make arch=noarch FIPS_MODE=y): AES group always a stub (no AES unit), SHA group real or stub
        + [dict(engine="fips", variant="fips-noarch", args=["--prop", "C13", "--noarch", 1, "--from", f, "--count", c]) for (f, c) in split(24 if tier == "quick" else 1200, 4)],
        post=isal_cover_post, exhaustive_key="fips_calls", exhaustive_over="(isal_ entry point) x (self-test state) cells",
    ),
    "C17": dict(
        technique='trap-flag instruction-level thread scheduler (seeded random + exhaustive preemption-bounded schedules) on the real protocol code, spinning-barrier stress, ThreadSanitizer build, offline check of the per-run event log',
        level="exploration", evaluations=["schedules", "stress_rounds"], must_observe=["schedules", "systematic_schedules", "stress_rounds", "schedule_steps"],
        level_text=("exploration of thread schedules of the real protocol code: seeded random instruction-granular schedules, complete enumeration of all schedules with a bounded number of "
                    "preemptions at protocol instructions (a finite quotient, reported as exhaustive per configuration), and free-running stress; 'never waits forever' is decided as bounded progress"),
        rule=("FIPS_MODE build with the self-test bodies replaced by stubs (verdict pass/fail injected). Controlled mode: 2-4 threads each make their first library call (isal_self_tests, "
              "isal_aes_keyexp_128 or isal_sha256_ctx_mgr_init) with the trap flag set; after every instruction a SIGTRAP handler hands the CPU to the thread the schedule names "
              "(pause = yield), so every instruction boundary of asm_check_self_tests_status / asm_set_self_tests_status / isal_self_tests is a preemption point. Random schedules "
              "switch with probability 2-42% per protocol instruction; systematic schedules enumerate every (preemption position, target thread) tuple. Stress mode: 1..64 pooled threads "
              "released from a spinning barrier with random start delays and random time spent inside the self-tests, real self-tests in 0.5% of the rounds (a tenth of them with a natural verdict: flipped known-answer bits in any subset "
              "of the SHA/GCM/CBC/XTS groups), one round whose winner stays inside the self-tests until every waiting thread has spent 20 s (60 s in thorough) of its own CPU time waiting (so a waiter that gives up after a bounded number of spins below that is seen whatever the load; longer bounds are not), with signals delivered to the sleeping waiters of the portable driver, status re-armed between rounds; "
              "also on a ThreadSanitizer build. Per run: the AES and SHA self-tests must each be entered exactly once, every call must return the injected verdict, no call may return "
              "before the self-tests finished (one atomic logical clock), the verdict must be published, a spinning thread must return within 400 of its own steps after publication, "
              "and a thread may not spin for more than 200000 steps. distinct_nontrivial = distinct schedules (hash of the (target thread, protocol step) switch sequence) and "
              "distinct (threads in round, verdict, delay class) stress shapes"),
        assumptions=TRUST + ["controlled schedules are sequentially consistent interleavings; x86-TSO store buffering is exercised only by the free-running stress",
                             "the self-test bodies are stubs in all but 0.5% of the rounds (their duration is varied instead)"],
        tasks=c17_tasks, post=c17_post, exhaustive_key="systematic_complete", exhaustive_over="all schedules with the stated number of preemptions at protocol instructions, for the configurations listed under exhaustive_configs",
    ),
    "C18": dict(
        technique='static-storage snapshot watch over all writable library sections, concurrent-vs-alone differential, first-call storms on re-armed dispatch slots, ThreadSanitizer build',
        level="exploration", evaluations=["concurrent_ops_compared", "concurrent_histories_compared", "storm_calls"],
        must_observe=["concurrent_ops_compared", "concurrent_histories_compared", "storm_calls", "storm_entries", "static_watch_sections_compared"],
        rule=("(a) static-storage watch: every writable input section the library's 230 objects contribute to the process (from the link map, about 220 sections, listed in the sample) is "
              "snapshotted before the first library call and compared byte for byte after each phase of every workload below; only the 64 dispatch slots and the self-test status may differ; "
              "(b) 2/8/32 threads (and 8 threads under the virtual CPUs sse / avx / avx2, so that the other families run too) each run a seeded sequence of operations on private objects (GCM one-shot/nt/stream, XTS raw/expanded, key expansion + CBC, mh_sha1, mh_sha256, murmur, rolling, "
              "the five hash managers) and, separately, random hash histories (all families, 8 threads): every per-operation result hash / history trace must equal the one from running the "
              "same sequence alone; (c) the same on a ThreadSanitizer build of the C layers (any report is a violation); (d) first-call storms: for each of the 64 dispatched entries, with all "
              "slots re-armed every round, 4-8 threads released from a spinning barrier call the entry on private objects (virtual CPUs host/avx2/sse): every result must equal the "
              "single-threaded one and the slot must end on the single-threaded target. distinct_nontrivial = distinct operation results, history shapes, (entry, bound target) pairs"),
        assumptions=TRUST + ["a static that is written and restored within one call escapes the snapshot (the differential results and ThreadSanitizer are the backstop)",
                             "ThreadSanitizer sees only the compiled C layers, not the assembly"],
        tasks=c18_tasks,
    ),
    "C12": dict(
        technique='virtual CPUID/XGETBV hook: enumeration of CPU/OS configurations with binding observation, plus single-step (trap flag) instruction tracer classified by ISA extension',
        level="exploration", evaluations="bindings_observed", must_observe=["bindings_observed", "configurations", "traced_runs", "trace_steps", "rebinding_probes"],
        level_text=("runtime observation of the real resolvers under a virtual CPU (hook ISAL_CRYPTO_VERIF): the configuration space is enumerated completely (quick: a stated quotient; thorough: every "
                    "consistent assignment), the instruction requirements of each bound family are measured by single-stepping its execution on this host"),
        rule=("phase 1 (tracer): each of the 64 dispatched entries is resolved under 10 named virtual CPUs and its workload (21 length classes; hash managers with 1, 3 and 36 jobs) runs with the trap "
              "flag set; the set of executed instruction addresses inside library .text is joined with objdump and every instruction is classified from its encoding (legacy / VEX / EVEX), mnemonic and "
              "operand width into SSE4.1, SSE4.2, SHA, AVX, AVX2, BMI, AVX512 F/VL/BW/DQ/CD/VBMI2/VBMI/IFMA/VNNI/BITALG/VPOPCNTDQ, GFNI, VAES, VPCLMULQDQ -> one requirement mask per family function. "
              "phase 2 (observer): for every consistent configuration of CPUID.1 {SSE4.1, SSE4.2, OSXSAVE, AVX, model=Avoton}, CPUID.7 {AVX2, AVX512 F/DQ/CD/BW/VL, SHA, VBMI2, GFNI, VAES, VPCLMULQDQ, VNNI, "
              "BITALG, VPOPCNTDQ} and XCR0 {SSE, AVX, opmask+ZMM} (quick: each AVX-512 group reduced to all / none / one-bit-missing / minimal; thorough: every assignment) all slots are re-armed, every "
              "entry is called once, and: the bound family's requirement mask must be a subset of what the configuration makes executable (VEX needs AVX+OSXSAVE+XCR0[2:1], EVEX also XCR0[7:5] and the "
              "CPUID bits); XGETBV may not run when OSXSAVE=0; entries of one object (hash init/submit/flush, GCM precompute/init/update/finalize/one-shot/nt per key size, multi-hash update/finalize) must "
              "bind one family; the result must equal the host's; a later call under a very different configuration must not rebind nor query CPUID again. AES entries are evaluated from their documented "
              "floor (SSE4.1+AESNI) upward. distinct_nontrivial = distinct configurations + distinct binding vectors + distinct traced targets"),
        assumptions=TRUST + ["instruction availability is decided by classifying what a family executed on this host, not by running on hardware that lacks the features",
                             "AES-NI, PCLMULQDQ, SSSE3/SSE3, POPCNT, MOVBE and (with AVX2) BMI1/BMI2/FMA are assumed present wherever a family using them is selectable; the mnemonics concerned are listed in the evidence",
                             "a rarely taken path inside a family that uses a foreign instruction could be missed by the trace workload"],
        tasks=c12_tasks, prepare=c12_prepare, post=c12_post, setup_tasks=lambda: [dict(engine="dispatch", variant="plain", args=[])],
        exhaustive_key="configs_complete", exhaustive_over="the enumerated configuration space (quick: quotient of the AVX-512 bit groups; thorough: all consistent assignments) x 64 entries",
    ),
}


# ---- amendments to the rule texts made when the workloads were strengthened (applied to the concatenated strings) ----
def _amend(k, old, new):
    r = CHECKS[k]["rule"]
    assert old in r, (k, old)
    CHECKS[k]["rule"] = r.replace(old, new)


_amend("C05", "context memory filled with junk before init and placed at 0 or 8 modulo 16 (the type guarantees 8);",
       "context memory filled with junk before init and placed at every multiple of 8 modulo 64 (the type guarantees 8); a fifth of the messages lie across a 4 GiB-aligned address;")
_amend("C05", "one stream of 2^29+100 bytes per family (bit length beyond 32 bits; thorough also 2^31+53 and 2^32-77) against an oracle built on OpenSSL's block transforms; ",
       "one stream of 2^31+2^20+100 bytes per family (thorough also 2^29+100 and 2^32-77), once in four pieces and once as 7 bytes + a single update of more than 2^31 bytes + an empty update + 1000 bytes, "
       "against an oracle built on OpenSSL's block transforms; the base code also in the portable configuration (make arch=noarch: *_base_aliases.c, files the x86 build never compiles) through all three routes; ")
_amend("C10", "one stream of 2^31+53 bytes per family (thorough also 2^29+100 and 2^32-77)",
       "one stream of 2^31+2^20+53 bytes per family (thorough also 2^29+100 and 2^32-77) in the two shapes described under C05; also in the portable configuration (make arch=noarch)")
_amend("C09", "per scan kernel two single run calls over more than 2^31 bytes of random data (hit just below / above 2^31) against an incremental model",
       "per scan kernel three single run calls over more than 2^31 bytes of random data (hit just below / above 2^31, and trigger 0, which has a loop of its own) against an incremental model; "
       "a fifth of the streams lie across a 4 GiB-aligned address; the base scan also in the portable configuration (make arch=noarch, rolling_hash2_base_aliases.c)")
_amend("C07", "per family one stream with updates of 1, exactly 2^32 and 9 bytes (128-bit key; thorough both key sizes) against OpenSSL; ",
       "per family one stream with updates of 1, exactly 2^32 and 9 bytes (128-bit key; thorough both key sizes) against OpenSSL, then that ciphertext decrypted in place with updates of 5, 3 GiB + 11 "
       "and the remaining bytes; contexts at 0 and 8 modulo 16; ")
_amend("C11", "evaluations = injected invalid submits, each compared byte-for-byte",
       "a fifth of the out-of-range-flags submits carry a NULL buffer (on the isal_ route the documented NULL_SRC refusal is accepted as well; nothing may change either way); about one history in three "
       "re-initialises the manager with jobs in flight and the abandoned contexts with isal_hash_ctx_init, after which they must behave like fresh ones; the base code also in the portable configuration "
       "(make arch=noarch); evaluations = injected invalid submits, each compared byte-for-byte")
_amend("C13", "The same cells also run on a FIPS_MODE build with SAFE_PARAM=n.",
       "Half of the hash-submit cells continue a job whose FIRST segment was accepted while the module was operational (UPDATE or LAST arrives in the state under test); a quarter of the CBC / GCM / "
       "hash-submit cells carry a zero-length message. The same cells also run on a FIPS_MODE build with SAFE_PARAM=n and, for the entry points that exist there, on the portable configuration "
       "(make arch=noarch FIPS_MODE=y: fips/self_tests_generic.c; its AES group is always a stub because that configuration has no AES unit, its SHA group is real or a stub; the status word is the "
       "function-local static found through the symbol table).")
_amend("C14", "every 16-byte entry of the hash-key table as stored by precompute, E_K2(tweak).",
       "every 16-byte entry of the hash-key table as stored by precompute, E_K2(tweak) and the 31 following per-block tweaks E_K2(tweak) x alpha^j.")
_amend("C15", "Small random histories add the total_length check at every hand-back.",
       "Small random histories add the total_length check at every hand-back. Per SIMD (algorithm, family) a manager whose lanes all hold single segments of at least 2^24 blocks at once (lanes+1, lanes-1 or 2 jobs, "
       "so that the kernel starts on a submit or on a flush). The state-advanced histories also run on the portable configuration (make arch=noarch).")
_amend("C17", "(isal_self_tests, isal_aes_keyexp_128 or isal_sha256_ctx_mgr_init)",
       "(isal_self_tests, isal_aes_keyexp_128, isal_sha256_ctx_mgr_init, isal_aes_cbc_enc_128, or isal_aes_cbc_dec_192 with a zero-length message)")
_amend("C17", "also on a ThreadSanitizer build. Per run:",
       "also on a ThreadSanitizer build. The portable driver (fips/self_tests_generic.c, make arch=noarch FIPS_MODE=y: C11 atomics, usleep in the wait loop, which the controlled scheduler turns into the "
       "yield point) runs under random controlled schedules, stress, the long-stall round and ThreadSanitizer as well. Per run:")
_amend("C18", "(c) the same on a ThreadSanitizer build of the C layers (any report is a violation);",
       "(c) the same on a ThreadSanitizer build of the C layers (any report is a violation), and the mixed workload on the FIPS_MODE build, plain and ThreadSanitizer (the wrappers have code and static storage of their own there);")
_amend("C04", "compared byte for byte with the FIPS-197 schedule and its equivalent-inverse decryption schedule;",
       "compared byte for byte with the FIPS-197 schedule and its equivalent-inverse decryption schedule, the two schedule arrays at arbitrary byte alignment in two thirds of the cases (the key-expansion API states none);")
_amend("C12", "(21 length classes; hash managers with 1, 3 and 36 jobs)",
       "(21 length classes; hash managers with 1, 3 and 36 jobs and three segmented messages that carry, complete and pad partial blocks; GCM with tag lengths 8/12/16 and AAD lengths 0/1/16/33/64)")
_amend("C06", "evaluations = library calls checked against the sequential job-accounting model;",
       "about one history in three re-initialises the manager with jobs in flight; in a third of the histories one context lives at a 4 GiB-aligned address; the base code also in the portable configuration "
       "(make arch=noarch); evaluations = library calls checked against the sequential job-accounting model;")
_amend("C15", "Small random histories add the total_length check at every hand-back.",
       "Small random histories add the total_length check at every hand-back. Per (algorithm, family) two jobs buffer a partial block of p bytes and then submit one segment that brings p + len to 2^31 resp. 2^32 "
       "(sums of the two lengths formed in 32 bits or in a signed int). The lane-magnitude probe also sets whole lane subsets (halves, parity classes, quarters, all-but-one) to >= 2^31 bytes at once.")
_amend("C06", "evaluations = library calls checked against the sequential job-accounting model;",
       "before every call the public accessor macros isal_hash_ctx_complete() / isal_hash_ctx_processing() are evaluated on every context and compared with the model; an accepted job must come back with "
       "error 0 unless a rejected submit hit that very context while it was in flight; the lane-magnitude probe also sets whole lane subsets to >= 2^31 bytes at once; "
       "evaluations = library calls checked against the sequential job-accounting model;")
_amend("C05", "random buffer alignment;", "random buffer alignment; after finalize the documented digest field of the context must equal the digest written to the output buffer;")
_amend("C03", "random alignment of data, keys and tweak;", "random alignment of data, keys and tweak; every sixteenth case has key2 equal to key1 (only the FIPS_MODE build refuses that);")
_amend("C20", "run under 0x00 / 0xff / random junk in manager and context memory", "run under 0x00 / 0xff / random junk in manager and context memory (for the rolling-hash state also: every word equal to the requested window, a plausible stale object)")
_amend("C16", "(c) in-domain variants", "(b2) for the GCM entry points len = ISAL_GCM_MAX_LEN with the data pointers in the PROT_NONE region: the call must get past its parameter checks (it faults on its first data access) "
       "instead of returning the length code; (a)-(c) also on the FIPS_MODE build, where the wrappers have blocks of their own around the parameter checks (non-approved algorithms answer FIPS_INVALID_ALGO there); "
       "(c) in-domain variants")
_amend("C12", "(21 length classes;", "(21 length classes, GCM messages of 4200 and 8300 bytes so that the low counter byte wraps, XTS lengths with every number of trailing blocks with and without ciphertext stealing;")
