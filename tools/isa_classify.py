"""Classify executed instructions (addresses from the single-step tracer) by ISA extension.

Input : the engine binary (objdump -d gives raw bytes + mnemonic + operands), its .objmap (library .text ranges),
        trace files with lines "T <entry> <target> <vcpu>" followed by "A <hexaddr>" lines.
Output: {target: set(features)} and statistics.  Feature names match dispatch.c's enum order.
"""
import re, subprocess, bisect

FEATS = ["SSE41", "SSE42", "AVX", "AVX2", "BMI", "F", "VL", "BW", "DQ", "CD", "VBMI2", "GFNI", "VAES", "VPCLMUL", "VNNI", "BITALG", "VPOPCNT", "SHA", "IFMA", "VBMI"]
BIT = {n: i for i, n in enumerate(FEATS)}

SSE41 = set("pinsrb pinsrd pinsrq pextrb pextrd pextrq pextrw pblendw pblendvb blendps blendpd blendvps blendvpd ptest pmovzxbw pmovzxbd pmovzxbq pmovzxwd pmovzxwq pmovzxdq "
            "pmovsxbw pmovsxbd pmovsxbq pmovsxwd pmovsxwq pmovsxdq pminsb pminsd pminuw pminud pmaxsb pmaxsd pmaxuw pmaxud pmulld pmuldq roundps roundpd roundss roundsd insertps "
            "extractps dpps dppd movntdqa packusdw pcmpeqq phminposuw mpsadbw".split())
SSE42 = set("pcmpgtq crc32 crc32b crc32w crc32l crc32q pcmpestri pcmpestrm pcmpistri pcmpistrm".split())
SHA = set("sha1rnds4 sha1nexte sha1msg1 sha1msg2 sha256rnds2 sha256msg1 sha256msg2".split())
BMI = set("andn bextr blsi blsmsk blsr bzhi mulx pdep pext rorx sarx shlx shrx tzcnt lzcnt".split())
AVX2_ONLY = set("vpbroadcastb vpbroadcastw vpbroadcastd vpbroadcastq vbroadcasti128 vinserti128 vextracti128 vperm2i128 vpermd vpermq vpermps vpermpd vpsllvd vpsllvq vpsrlvd vpsrlvq vpsravd "
                "vpmaskmovd vpmaskmovq vpgatherdd vpgatherdq vpgatherqd vpgatherqq vgatherdps vgatherdpd vgatherqps vgatherqpd vpblendd".split())
AVX_YMM_OK = set("vperm2f128 vpermilps vpermilpd vptest vinsertf128 vextractf128 vbroadcastf128 vbroadcastss vbroadcastsd vzeroupper vzeroall".split())
BW = re.compile(r"^(vmovdqu8|vmovdqu16|vpshufb|vpadd[bw]|vpadds[bw]|vpaddus[bw]|vpsub[bw]|vpsubs[bw]|vpsubus[bw]|vpcmp(eq|gt)?u?[bw]|vpunpck[lh](bw|wd)|vpack[us]s(wb|dw)|vps[lr]lw|vpsraw|vpmullw|vpmulh(u|rs)?w|"
                r"vpmaddubsw|vpmaddwd|vpalignr|vpbroadcast[bw]|vperm(i2|t2)?w|vpmov[bw]2m|vpmovm2[bw]|vpblendm[bw]|vpmin[us][bw]|vpmax[us][bw]|vpavg[bw]|vpsadbw|vps[lr]ldq|vdbpsadbw|vpabs[bw]|"
                r"vpmov[sz]xbw|vpmov(us|s)?wb|vptestn?m[bw]|vpshuf[hl]w|vps[lr][la]vw|vpextr[bw]|vpinsr[bw])$")
DQ = re.compile(r"^(vinsert[if]64x2|vinsert[if]32x8|vextract[if]64x2|vextract[if]32x8|vbroadcast[if]64x2|vbroadcast[if]32x2|vbroadcast[if]32x8|vpmullq|vpextr[dq]|vpinsr[dq]|vandn?p[sd]|vorp[sd]|vxorp[sd]|"
                r"vcvt.*qq.*|vpmov[dq]2m|vpmovm2[dq]|vrange[ps][sd]|vreduce[ps][sd]|vfpclass[ps][sd])$")
CD = re.compile(r"^(vpconflict[dq]|vplzcnt[dq]|vpbroadcastm(b2q|w2d))$")
VBMI2 = re.compile(r"^(vpshld[wdq]|vpshrd[wdq]|vpshldv[wdq]|vpshrdv[wdq]|vpcompress[bw]|vpexpand[bw])$")
VBMI = re.compile(r"^(vpermb|vpermi2b|vpermt2b|vpmultishiftqb)$")
IFMA = re.compile(r"^vpmadd52[lh]uq$")
VNNI = re.compile(r"^vpdp(bu|ws)sds?$")
BITALG = re.compile(r"^(vpopcnt[bw]|vpshufbitqmb)$")
VPOPCNT = re.compile(r"^vpopcnt[dq]$")
GFNI = re.compile(r"^v?gf2p8")
KBW = re.compile(r"^k(mov|and|andn|or|xor|xnor|not|add|test|ortest|shiftl|shiftr)[dq]$|^kunpck(wd|dq)$")
KDQ = re.compile(r"^k(mov|and|andn|or|xor|xnor|not|add|test|ortest|shiftl|shiftr)b$|^k(add|test)w$")
PREFIXES = {0x66, 0xf2, 0xf3, 0x2e, 0x3e, 0x26, 0x36, 0x64, 0x65, 0x67, 0xf0}


def classify(raw, mnem, ops):
    """-> (set of features, note) for one instruction."""
    i = 0
    while i < len(raw) and raw[i] in PREFIXES:
        i += 1
    first = raw[i] if i < len(raw) else 0
    f = set()
    has_k = "%k" in ops
    if first == 0x62:                      # EVEX
        f.add("F")
        if "%zmm" not in ops and ("%ymm" in ops or "%xmm" in ops) and not re.search(r"(ss|sd)$", mnem) and mnem not in ("vmovd", "vmovq"):
            f.add("VL")
        for rx, name in ((BW, "BW"), (DQ, "DQ"), (CD, "CD"), (VBMI2, "VBMI2"), (VBMI, "VBMI"), (IFMA, "IFMA"), (VNNI, "VNNI"), (BITALG, "BITALG"), (VPOPCNT, "VPOPCNT"), (GFNI, "GFNI")):
            if rx.match(mnem):
                f.add(name)
        if mnem.startswith("vaes"):
            f.add("VAES")
        if mnem == "vpclmulqdq":
            f.add("VPCLMUL")
        return f, "evex"
    if first in (0xc4, 0xc5):              # VEX
        if mnem.startswith("k") and has_k or mnem.startswith("k"):
            f.add("F")
            if KBW.match(mnem):
                f.add("BW")
            if KDQ.match(mnem):
                f.add("DQ")
            return f, "vex-mask"
        if mnem in BMI:
            return {"BMI"}, "vex-gpr"
        f.add("AVX")
        if mnem in AVX2_ONLY or mnem.startswith("vfm") or mnem.startswith("vfnm"):
            f.add("AVX2")
        elif "%ymm" in ops and mnem.startswith("vp") and mnem not in AVX_YMM_OK:
            f.add("AVX2")
        elif "%ymm" in ops and mnem in ("vmovntdqa",):
            f.add("AVX2")
        if mnem.startswith("vaes") and "%ymm" in ops:
            f.add("VAES")
        if mnem == "vpclmulqdq" and "%ymm" in ops:
            f.add("VPCLMUL")
        if GFNI.match(mnem):
            f.add("GFNI")
        return f, "vex"
    # legacy encodings
    if mnem in SSE41:
        return {"SSE41"}, "sse"
    if mnem in SSE42:
        return {"SSE41", "SSE42"}, "sse"
    if mnem in SHA:
        return {"SHA"}, "sse"
    if mnem in BMI:
        return {"BMI"}, "gpr"
    if GFNI.match(mnem):
        return {"GFNI"}, "sse"
    if "%xmm" in ops:
        return set(), "sse-assumed"        # <= SSSE3 / AESNI / PCLMULQDQ: assumed present wherever the family is selectable
    return set(), "base"


def load_objdump(binary, wanted):
    """{addr: (rawbytes, mnemonic, operands)} for the wanted addresses."""
    out = {}
    p = subprocess.Popen(["objdump", "-d", "--no-addresses", binary] if False else ["objdump", "-d", binary], stdout=subprocess.PIPE, text=True, errors="replace")
    rx = re.compile(r"^\s*([0-9a-f]+):\t([0-9a-f ]+?)\s*\t(\S+)\s*(.*)$")
    last = None
    for ln in p.stdout:
        m = rx.match(ln)
        if not m:
            # continuation lines of long encodings: "  addr:\tbytes"
            m2 = re.match(r"^\s*([0-9a-f]+):\t([0-9a-f ]+?)\s*$", ln)
            if m2 and last is not None and last in out:
                out[last] = (out[last][0] + bytes(int(b, 16) for b in m2.group(2).split()), out[last][1], out[last][2])
            continue
        a = int(m.group(1), 16)
        last = None
        if a in wanted:
            mn, ops = m.group(3), m.group(4)
            # objdump prints prefixes as separate mnemonics ("lock cmpxchg", "rep stos", "data16", "notrack jmp", "bnd")
            while mn in ("lock", "rep", "repz", "repnz", "repe", "repne", "notrack", "bnd", "data16", "addr32", "cs", "ds", "es", "ss", "fs", "gs") and ops:
                parts = ops.split(None, 1)
                mn, ops = parts[0], (parts[1] if len(parts) > 1 else "")
            out[a] = (bytes(int(b, 16) for b in m.group(2).split()), mn, ops)
            last = a
    p.wait()
    return out


def lib_text_ranges(objmap):
    r = []
    for ln in open(objmap):
        p = ln.split()
        if len(p) == 4 and p[2].startswith(".text"):
            r.append((int(p[0], 16), int(p[0], 16) + int(p[1], 16), p[3]))
    r.sort()
    return r


def run(binary, trace_files):
    ranges = lib_text_ranges(binary + ".objmap")
    starts = [x[0] for x in ranges]

    def in_lib(a):
        i = bisect.bisect_right(starts, a) - 1
        return i >= 0 and ranges[i][0] <= a < ranges[i][1]

    traces = {}          # target -> set(addr)
    entries = {}         # target -> set(entry)
    cur = None
    for tf in trace_files:
        for ln in open(tf):
            if ln.startswith("T "):
                _, entry, target, vc = ln.split()
                cur = target
                traces.setdefault(cur, set())
                entries.setdefault(cur, set()).add(entry)
            elif ln.startswith("A ") and cur is not None:
                a = int(ln[2:], 16)
                if in_lib(a):
                    traces[cur].add(a)
    wanted = set().union(*traces.values()) if traces else set()
    dis = load_objdump(binary, wanted)
    req, stats, assumed, unknown = {}, {}, set(), []
    for t, addrs in traces.items():
        f = set()
        n = dict(total=len(addrs))
        for a in addrs:
            d = dis.get(a)
            if d is None:
                unknown.append("%s:%x" % (t, a))
                continue
            ff, note = classify(*d)
            f |= ff
            n[note] = n.get(note, 0) + 1
            if note == "sse-assumed":
                assumed.add(d[1])
        req[t] = f
        stats[t] = n
    return req, stats, sorted(assumed), unknown


def mask(feats):
    m = 0
    for x in feats:
        m |= 1 << BIT[x]
    return m
