#!/bin/sh
# tools/asmcov_run.sh <hits-dir> [checks...] : run the quick tier of the named checks (default: all whose engines can be measured) with the
# instruction-coverage measurement on (VERIF_ASMCOV; verdicts and evidence of such a run go to .build/evidence-asmcov), then report.
cd "$(dirname "$0")/.." || exit 2
d=$1; shift
[ $# -gt 0 ] || set -- C01 C02 C03 C04 C05 C06 C07 C08 C09 C10 C11 C13 C14 C15 C16 C18 C19 C20
mkdir -p "$d"
for c in "$@"; do VERIF_ASMCOV=$d ./check $c 2>&1 | tail -1; done
python3 tools/asmcov.py report "$d" "$d/asmcov.json" > "$d/asmcov.txt"
head -1 "$d/asmcov.txt"
