/* Independent reference oracles, written from the standards. Slow and simple. */
#ifndef VERIF_REF_H
#define VERIF_REF_H
#include <stdint.h>
#include <stddef.h>

/* ---- hashes: standard byte-order digests ---- */
enum { REF_SHA1, REF_SHA256, REF_SHA512, REF_MD5, REF_SM3, REF_NALG };
extern const char *const ref_alg_name[REF_NALG];
extern const int ref_alg_dlen[REF_NALG];   /* digest bytes: 20 32 64 16 32 */
extern const int ref_alg_block[REF_NALG];  /* block bytes:  64 64 128 64 64 */

typedef struct {
        int alg;
        uint64_t h[8];          /* 32-bit algs use low halves */
        uint8_t buf[128];
        unsigned fill;
        uint64_t total;
} ref_hash_t;
void ref_hash_init(ref_hash_t *c, int alg);
void ref_hash_update(ref_hash_t *c, const void *p, size_t n);
void ref_hash_final(ref_hash_t *c, uint8_t *out);       /* c is consumed */
void ref_hash(int alg, const void *p, size_t n, uint8_t *out);
/* raw compression only (no padding), used by the multi-hash reference */
void ref_sha1_compress(uint32_t h[5], const uint8_t blk[64]);
void ref_sha256_compress(uint32_t h[8], const uint8_t blk[64]);

/* ---- AES (FIPS-197) ---- */
typedef struct {
        int nr;                 /* 10 12 14 */
        uint8_t enc[15][16];    /* round keys, round 0..nr */
        uint8_t dec[15][16];    /* equivalent-inverse schedule: dec[i] = (i==0||i==nr)? enc[nr-i] : InvMixColumns(enc[nr-i]) */
} ref_aes_t;
void ref_aes_expand(ref_aes_t *a, const uint8_t *key, int keybits);
void ref_aes_enc(const ref_aes_t *a, const uint8_t in[16], uint8_t out[16]);
void ref_aes_dec(const ref_aes_t *a, const uint8_t in[16], uint8_t out[16]);

/* ---- modes ---- */
void ref_cbc_enc(const ref_aes_t *a, const uint8_t iv[16], const uint8_t *in, uint8_t *out, size_t len);
void ref_cbc_dec(const ref_aes_t *a, const uint8_t iv[16], const uint8_t *in, uint8_t *out, size_t len);
/* GCM with a 12-byte IV; tag is always 16 bytes, caller truncates */
void ref_gcm(const ref_aes_t *a, int enc, const uint8_t iv[12], const uint8_t *aad, size_t aadlen,
             const uint8_t *in, uint8_t *out, size_t len, uint8_t tag[16]);
void ref_ghash_mul(uint8_t x[16], const uint8_t h[16]); /* x = x*h in GF(2^128), GCM bit order */
/* XTS (IEEE 1619) len >= 16 */
void ref_xts(const ref_aes_t *k1, const ref_aes_t *k2, int enc, const uint8_t tweak[16],
             const uint8_t *in, uint8_t *out, size_t len);

/* ---- multi-hash ---- */
void ref_mh_sha1(const uint8_t *p, size_t n, uint8_t out[20]);
void ref_mh_sha256(const uint8_t *p, size_t n, uint8_t out[32]);
void ref_murmur3_x64_128(const uint8_t *p, size_t n, uint64_t seed, uint8_t out[16]);

/* ---- rolling hash ---- */
extern const uint64_t ref_rolling_table[256];   /* golden copy */
uint64_t ref_rolling_hash(const uint8_t *last_w, unsigned w);   /* from scratch */
uint32_t ref_rolling_mask(uint32_t mean, uint32_t shift);

/* self-validation of the oracles against published vectors (0 = ok) */
int ref_selfcheck(void);
#endif
