/* Reference oracles written from the standards (FIPS 180-4, RFC 1321, GB/T 32905,
 * FIPS-197, SP 800-38A/D, IEEE 1619, MurmurHash3 public-domain description).
 * Nothing here is shared with or derived from the repository's code. */
#include "ref.h"
#include <string.h>
#include <stdlib.h>

const char *const ref_alg_name[REF_NALG] = { "sha1", "sha256", "sha512", "md5", "sm3" };
const int ref_alg_dlen[REF_NALG] = { 20, 32, 64, 16, 32 };
const int ref_alg_block[REF_NALG] = { 64, 64, 128, 64, 64 };

static inline uint32_t rol32(uint32_t x, int n) { return n ? (x << n) | (x >> (32 - n)) : x; }
static inline uint32_t ror32(uint32_t x, int n) { return n ? (x >> n) | (x << (32 - n)) : x; }
static inline uint64_t ror64(uint64_t x, int n) { return n ? (x >> n) | (x << (64 - n)) : x; }
static inline uint64_t rol64(uint64_t x, int n) { n &= 63; return n ? (x << n) | (x >> (64 - n)) : x; }
static inline uint32_t be32(const uint8_t *p) { return (uint32_t) p[0] << 24 | (uint32_t) p[1] << 16 | (uint32_t) p[2] << 8 | p[3]; }
static inline uint32_t le32(const uint8_t *p) { return (uint32_t) p[3] << 24 | (uint32_t) p[2] << 16 | (uint32_t) p[1] << 8 | p[0]; }
static inline uint64_t be64(const uint8_t *p) { return (uint64_t) be32(p) << 32 | be32(p + 4); }
static inline uint64_t le64(const uint8_t *p) { return (uint64_t) le32(p + 4) << 32 | le32(p); }
static inline void put_be32(uint8_t *p, uint32_t v) { p[0] = v >> 24; p[1] = v >> 16; p[2] = v >> 8; p[3] = v; }
static inline void put_le32(uint8_t *p, uint32_t v) { p[3] = v >> 24; p[2] = v >> 16; p[1] = v >> 8; p[0] = v; }
static inline void put_be64(uint8_t *p, uint64_t v) { put_be32(p, v >> 32); put_be32(p + 4, (uint32_t) v); }
static inline void put_le64(uint8_t *p, uint64_t v) { put_le32(p + 4, v >> 32); put_le32(p, (uint32_t) v); }

/* ------------------------------ SHA-1 ------------------------------ */
void ref_sha1_compress(uint32_t h[5], const uint8_t blk[64])
{
        uint32_t w[80], a = h[0], b = h[1], c = h[2], d = h[3], e = h[4], f, k, t;
        for (int i = 0; i < 16; i++) w[i] = be32(blk + 4 * i);
        for (int i = 16; i < 80; i++) w[i] = rol32(w[i - 3] ^ w[i - 8] ^ w[i - 14] ^ w[i - 16], 1);
        for (int i = 0; i < 80; i++) {
                if (i < 20) { f = (b & c) | (~b & d); k = 0x5a827999; }
                else if (i < 40) { f = b ^ c ^ d; k = 0x6ed9eba1; }
                else if (i < 60) { f = (b & c) | (b & d) | (c & d); k = 0x8f1bbcdc; }
                else { f = b ^ c ^ d; k = 0xca62c1d6; }
                t = rol32(a, 5) + f + e + k + w[i];
                e = d; d = c; c = rol32(b, 30); b = a; a = t;
        }
        h[0] += a; h[1] += b; h[2] += c; h[3] += d; h[4] += e;
}

/* ------------------------------ SHA-256 ------------------------------ */
static const uint32_t K256[64] = {
        0x428a2f98, 0x71374491, 0xb5c0fbcf, 0xe9b5dba5, 0x3956c25b, 0x59f111f1, 0x923f82a4, 0xab1c5ed5,
        0xd807aa98, 0x12835b01, 0x243185be, 0x550c7dc3, 0x72be5d74, 0x80deb1fe, 0x9bdc06a7, 0xc19bf174,
        0xe49b69c1, 0xefbe4786, 0x0fc19dc6, 0x240ca1cc, 0x2de92c6f, 0x4a7484aa, 0x5cb0a9dc, 0x76f988da,
        0x983e5152, 0xa831c66d, 0xb00327c8, 0xbf597fc7, 0xc6e00bf3, 0xd5a79147, 0x06ca6351, 0x14292967,
        0x27b70a85, 0x2e1b2138, 0x4d2c6dfc, 0x53380d13, 0x650a7354, 0x766a0abb, 0x81c2c92e, 0x92722c85,
        0xa2bfe8a1, 0xa81a664b, 0xc24b8b70, 0xc76c51a3, 0xd192e819, 0xd6990624, 0xf40e3585, 0x106aa070,
        0x19a4c116, 0x1e376c08, 0x2748774c, 0x34b0bcb5, 0x391c0cb3, 0x4ed8aa4a, 0x5b9cca4f, 0x682e6ff3,
        0x748f82ee, 0x78a5636f, 0x84c87814, 0x8cc70208, 0x90befffa, 0xa4506ceb, 0xbef9a3f7, 0xc67178f2
};
void ref_sha256_compress(uint32_t h[8], const uint8_t blk[64])
{
        uint32_t w[64], s[8];
        for (int i = 0; i < 16; i++) w[i] = be32(blk + 4 * i);
        for (int i = 16; i < 64; i++) {
                uint32_t s0 = ror32(w[i - 15], 7) ^ ror32(w[i - 15], 18) ^ (w[i - 15] >> 3);
                uint32_t s1 = ror32(w[i - 2], 17) ^ ror32(w[i - 2], 19) ^ (w[i - 2] >> 10);
                w[i] = w[i - 16] + s0 + w[i - 7] + s1;
        }
        memcpy(s, h, sizeof s);
        for (int i = 0; i < 64; i++) {
                uint32_t S1 = ror32(s[4], 6) ^ ror32(s[4], 11) ^ ror32(s[4], 25);
                uint32_t ch = (s[4] & s[5]) ^ (~s[4] & s[6]);
                uint32_t t1 = s[7] + S1 + ch + K256[i] + w[i];
                uint32_t S0 = ror32(s[0], 2) ^ ror32(s[0], 13) ^ ror32(s[0], 22);
                uint32_t mj = (s[0] & s[1]) ^ (s[0] & s[2]) ^ (s[1] & s[2]);
                uint32_t t2 = S0 + mj;
                s[7] = s[6]; s[6] = s[5]; s[5] = s[4]; s[4] = s[3] + t1;
                s[3] = s[2]; s[2] = s[1]; s[1] = s[0]; s[0] = t1 + t2;
        }
        for (int i = 0; i < 8; i++) h[i] += s[i];
}

/* ------------------------------ SHA-512 ------------------------------ */
static const uint64_t K512[80] = {
        0x428a2f98d728ae22ULL, 0x7137449123ef65cdULL, 0xb5c0fbcfec4d3b2fULL, 0xe9b5dba58189dbbcULL, 0x3956c25bf348b538ULL,
        0x59f111f1b605d019ULL, 0x923f82a4af194f9bULL, 0xab1c5ed5da6d8118ULL, 0xd807aa98a3030242ULL, 0x12835b0145706fbeULL,
        0x243185be4ee4b28cULL, 0x550c7dc3d5ffb4e2ULL, 0x72be5d74f27b896fULL, 0x80deb1fe3b1696b1ULL, 0x9bdc06a725c71235ULL,
        0xc19bf174cf692694ULL, 0xe49b69c19ef14ad2ULL, 0xefbe4786384f25e3ULL, 0x0fc19dc68b8cd5b5ULL, 0x240ca1cc77ac9c65ULL,
        0x2de92c6f592b0275ULL, 0x4a7484aa6ea6e483ULL, 0x5cb0a9dcbd41fbd4ULL, 0x76f988da831153b5ULL, 0x983e5152ee66dfabULL,
        0xa831c66d2db43210ULL, 0xb00327c898fb213fULL, 0xbf597fc7beef0ee4ULL, 0xc6e00bf33da88fc2ULL, 0xd5a79147930aa725ULL,
        0x06ca6351e003826fULL, 0x142929670a0e6e70ULL, 0x27b70a8546d22ffcULL, 0x2e1b21385c26c926ULL, 0x4d2c6dfc5ac42aedULL,
        0x53380d139d95b3dfULL, 0x650a73548baf63deULL, 0x766a0abb3c77b2a8ULL, 0x81c2c92e47edaee6ULL, 0x92722c851482353bULL,
        0xa2bfe8a14cf10364ULL, 0xa81a664bbc423001ULL, 0xc24b8b70d0f89791ULL, 0xc76c51a30654be30ULL, 0xd192e819d6ef5218ULL,
        0xd69906245565a910ULL, 0xf40e35855771202aULL, 0x106aa07032bbd1b8ULL, 0x19a4c116b8d2d0c8ULL, 0x1e376c085141ab53ULL,
        0x2748774cdf8eeb99ULL, 0x34b0bcb5e19b48a8ULL, 0x391c0cb3c5c95a63ULL, 0x4ed8aa4ae3418acbULL, 0x5b9cca4f7763e373ULL,
        0x682e6ff3d6b2b8a3ULL, 0x748f82ee5defb2fcULL, 0x78a5636f43172f60ULL, 0x84c87814a1f0ab72ULL, 0x8cc702081a6439ecULL,
        0x90befffa23631e28ULL, 0xa4506cebde82bde9ULL, 0xbef9a3f7b2c67915ULL, 0xc67178f2e372532bULL, 0xca273eceea26619cULL,
        0xd186b8c721c0c207ULL, 0xeada7dd6cde0eb1eULL, 0xf57d4f7fee6ed178ULL, 0x06f067aa72176fbaULL, 0x0a637dc5a2c898a6ULL,
        0x113f9804bef90daeULL, 0x1b710b35131c471bULL, 0x28db77f523047d84ULL, 0x32caab7b40c72493ULL, 0x3c9ebe0a15c9bebcULL,
        0x431d67c49c100d4cULL, 0x4cc5d4becb3e42b6ULL, 0x597f299cfc657e2aULL, 0x5fcb6fab3ad6faecULL, 0x6c44198c4a475817ULL
};
static void sha512_compress(uint64_t h[8], const uint8_t blk[128])
{
        uint64_t w[80], s[8];
        for (int i = 0; i < 16; i++) w[i] = be64(blk + 8 * i);
        for (int i = 16; i < 80; i++) {
                uint64_t s0 = ror64(w[i - 15], 1) ^ ror64(w[i - 15], 8) ^ (w[i - 15] >> 7);
                uint64_t s1 = ror64(w[i - 2], 19) ^ ror64(w[i - 2], 61) ^ (w[i - 2] >> 6);
                w[i] = w[i - 16] + s0 + w[i - 7] + s1;
        }
        memcpy(s, h, sizeof s);
        for (int i = 0; i < 80; i++) {
                uint64_t S1 = ror64(s[4], 14) ^ ror64(s[4], 18) ^ ror64(s[4], 41);
                uint64_t ch = (s[4] & s[5]) ^ (~s[4] & s[6]);
                uint64_t t1 = s[7] + S1 + ch + K512[i] + w[i];
                uint64_t S0 = ror64(s[0], 28) ^ ror64(s[0], 34) ^ ror64(s[0], 39);
                uint64_t mj = (s[0] & s[1]) ^ (s[0] & s[2]) ^ (s[1] & s[2]);
                uint64_t t2 = S0 + mj;
                s[7] = s[6]; s[6] = s[5]; s[5] = s[4]; s[4] = s[3] + t1;
                s[3] = s[2]; s[2] = s[1]; s[1] = s[0]; s[0] = t1 + t2;
        }
        for (int i = 0; i < 8; i++) h[i] += s[i];
}

/* ------------------------------ MD5 ------------------------------ */
static const uint8_t md5_s[64] = { 7, 12, 17, 22, 7, 12, 17, 22, 7, 12, 17, 22, 7, 12, 17, 22, 5, 9, 14, 20, 5, 9, 14, 20, 5, 9, 14, 20, 5, 9, 14, 20,
        4, 11, 16, 23, 4, 11, 16, 23, 4, 11, 16, 23, 4, 11, 16, 23, 6, 10, 15, 21, 6, 10, 15, 21, 6, 10, 15, 21, 6, 10, 15, 21 };
static uint32_t md5_k[64];
static void md5_init_k(void)
{
        /* K[i] = floor(2^32 * abs(sin(i+1))) ; table written out to avoid libm */
        static const uint32_t k[64] = {
                0xd76aa478, 0xe8c7b756, 0x242070db, 0xc1bdceee, 0xf57c0faf, 0x4787c62a, 0xa8304613, 0xfd469501,
                0x698098d8, 0x8b44f7af, 0xffff5bb1, 0x895cd7be, 0x6b901122, 0xfd987193, 0xa679438e, 0x49b40821,
                0xf61e2562, 0xc040b340, 0x265e5a51, 0xe9b6c7aa, 0xd62f105d, 0x02441453, 0xd8a1e681, 0xe7d3fbc8,
                0x21e1cde6, 0xc33707d6, 0xf4d50d87, 0x455a14ed, 0xa9e3e905, 0xfcefa3f8, 0x676f02d9, 0x8d2a4c8a,
                0xfffa3942, 0x8771f681, 0x6d9d6122, 0xfde5380c, 0xa4beea44, 0x4bdecfa9, 0xf6bb4b60, 0xbebfbc70,
                0x289b7ec6, 0xeaa127fa, 0xd4ef3085, 0x04881d05, 0xd9d4d039, 0xe6db99e5, 0x1fa27cf8, 0xc4ac5665,
                0xf4292244, 0x432aff97, 0xab9423a7, 0xfc93a039, 0x655b59c3, 0x8f0ccc92, 0xffeff47d, 0x85845dd1,
                0x6fa87e4f, 0xfe2ce6e0, 0xa3014314, 0x4e0811a1, 0xf7537e82, 0xbd3af235, 0x2ad7d2bb, 0xeb86d391
        };
        memcpy(md5_k, k, sizeof k);
}
static void md5_compress(uint32_t h[4], const uint8_t blk[64])
{
        uint32_t m[16], a = h[0], b = h[1], c = h[2], d = h[3];
        if (!md5_k[0]) md5_init_k();
        for (int i = 0; i < 16; i++) m[i] = le32(blk + 4 * i);
        for (int i = 0; i < 64; i++) {
                uint32_t f; int g;
                if (i < 16) { f = (b & c) | (~b & d); g = i; }
                else if (i < 32) { f = (d & b) | (~d & c); g = (5 * i + 1) & 15; }
                else if (i < 48) { f = b ^ c ^ d; g = (3 * i + 5) & 15; }
                else { f = c ^ (b | ~d); g = (7 * i) & 15; }
                f = f + a + md5_k[i] + m[g];
                a = d; d = c; c = b; b = b + rol32(f, md5_s[i]);
        }
        h[0] += a; h[1] += b; h[2] += c; h[3] += d;
}

/* ------------------------------ SM3 ------------------------------ */
static inline uint32_t P0(uint32_t x) { return x ^ rol32(x, 9) ^ rol32(x, 17); }
static inline uint32_t P1(uint32_t x) { return x ^ rol32(x, 15) ^ rol32(x, 23); }
static void sm3_compress(uint32_t v[8], const uint8_t blk[64])
{
        uint32_t w[68], w1[64], A = v[0], B = v[1], C = v[2], D = v[3], E = v[4], F = v[5], G = v[6], H = v[7];
        for (int i = 0; i < 16; i++) w[i] = be32(blk + 4 * i);
        for (int i = 16; i < 68; i++) w[i] = P1(w[i - 16] ^ w[i - 9] ^ rol32(w[i - 3], 15)) ^ rol32(w[i - 13], 7) ^ w[i - 6];
        for (int i = 0; i < 64; i++) w1[i] = w[i] ^ w[i + 4];
        for (int j = 0; j < 64; j++) {
                uint32_t T = j < 16 ? 0x79cc4519 : 0x7a879d8a;
                uint32_t ss1 = rol32(rol32(A, 12) + E + rol32(T, j % 32), 7);
                uint32_t ss2 = ss1 ^ rol32(A, 12);
                uint32_t ff = j < 16 ? (A ^ B ^ C) : ((A & B) | (A & C) | (B & C));
                uint32_t gg = j < 16 ? (E ^ F ^ G) : ((E & F) | (~E & G));
                uint32_t tt1 = ff + D + ss2 + w1[j];
                uint32_t tt2 = gg + H + ss1 + w[j];
                D = C; C = rol32(B, 9); B = A; A = tt1;
                H = G; G = rol32(F, 19); F = E; E = P0(tt2);
        }
        v[0] ^= A; v[1] ^= B; v[2] ^= C; v[3] ^= D; v[4] ^= E; v[5] ^= F; v[6] ^= G; v[7] ^= H;
}

/* ------------------------------ streaming wrapper ------------------------------ */
void ref_hash_init(ref_hash_t *c, int alg)
{
        static const uint64_t iv1[5] = { 0x67452301, 0xefcdab89, 0x98badcfe, 0x10325476, 0xc3d2e1f0 };
        static const uint64_t iv256[8] = { 0x6a09e667, 0xbb67ae85, 0x3c6ef372, 0xa54ff53a, 0x510e527f, 0x9b05688c, 0x1f83d9ab, 0x5be0cd19 };
        static const uint64_t iv512[8] = { 0x6a09e667f3bcc908ULL, 0xbb67ae8584caa73bULL, 0x3c6ef372fe94f82bULL, 0xa54ff53a5f1d36f1ULL,
                0x510e527fade682d1ULL, 0x9b05688c2b3e6c1fULL, 0x1f83d9abfb41bd6bULL, 0x5be0cd19137e2179ULL };
        static const uint64_t ivsm3[8] = { 0x7380166f, 0x4914b2b9, 0x172442d7, 0xda8a0600, 0xa96f30bc, 0x163138aa, 0xe38dee4d, 0xb0fb0e4e };
        memset(c, 0, sizeof *c);
        c->alg = alg;
        switch (alg) {
        case REF_SHA1: memcpy(c->h, iv1, sizeof iv1); break;
        case REF_MD5: memcpy(c->h, iv1, 4 * sizeof(uint64_t)); break;
        case REF_SHA256: memcpy(c->h, iv256, sizeof iv256); break;
        case REF_SHA512: memcpy(c->h, iv512, sizeof iv512); break;
        case REF_SM3: memcpy(c->h, ivsm3, sizeof ivsm3); break;
        }
}
static void compress(ref_hash_t *c, const uint8_t *blk)
{
        uint32_t h[8];
        if (c->alg == REF_SHA512) { sha512_compress(c->h, blk); return; }
        for (int i = 0; i < 8; i++) h[i] = (uint32_t) c->h[i];
        switch (c->alg) {
        case REF_SHA1: ref_sha1_compress(h, blk); break;
        case REF_SHA256: ref_sha256_compress(h, blk); break;
        case REF_MD5: md5_compress(h, blk); break;
        case REF_SM3: sm3_compress(h, blk); break;
        }
        for (int i = 0; i < 8; i++) c->h[i] = h[i];
}
void ref_hash_update(ref_hash_t *c, const void *pv, size_t n)
{
        const uint8_t *p = pv;
        unsigned B = ref_alg_block[c->alg];
        c->total += n;
        while (n) {
                unsigned k = B - c->fill;
                if (k > n) k = (unsigned) n;
                memcpy(c->buf + c->fill, p, k);
                c->fill += k; p += k; n -= k;
                if (c->fill == B) { compress(c, c->buf); c->fill = 0; }
        }
}
void ref_hash_final(ref_hash_t *c, uint8_t *out)
{
        unsigned B = ref_alg_block[c->alg], lenf = (c->alg == REF_SHA512) ? 16 : 8;
        uint64_t bits = c->total * 8, hibits = c->total >> 61;
        c->buf[c->fill++] = 0x80;
        if (c->fill > B - lenf) { memset(c->buf + c->fill, 0, B - c->fill); compress(c, c->buf); c->fill = 0; }
        memset(c->buf + c->fill, 0, B - c->fill);
        if (c->alg == REF_MD5) put_le64(c->buf + B - 8, bits);
        else { put_be64(c->buf + B - 8, bits); if (lenf == 16) put_be64(c->buf + B - 16, hibits); }
        compress(c, c->buf);
        switch (c->alg) {
        case REF_SHA1: for (int i = 0; i < 5; i++) put_be32(out + 4 * i, (uint32_t) c->h[i]); break;
        case REF_SHA256: case REF_SM3: for (int i = 0; i < 8; i++) put_be32(out + 4 * i, (uint32_t) c->h[i]); break;
        case REF_SHA512: for (int i = 0; i < 8; i++) put_be64(out + 8 * i, c->h[i]); break;
        case REF_MD5: for (int i = 0; i < 4; i++) put_le32(out + 4 * i, (uint32_t) c->h[i]); break;
        }
}
void ref_hash(int alg, const void *p, size_t n, uint8_t *out)
{
        ref_hash_t c;
        ref_hash_init(&c, alg);
        ref_hash_update(&c, p, n);
        ref_hash_final(&c, out);
}

/* ------------------------------ AES ------------------------------ */
static uint8_t sbox[256], isbox[256];
static int aes_ready;
static uint8_t xt(uint8_t x) { return (uint8_t) ((x << 1) ^ ((x & 0x80) ? 0x1b : 0)); }
static uint8_t gmul(uint8_t a, uint8_t b)
{
        uint8_t r = 0;
        while (b) { if (b & 1) r ^= a; a = xt(a); b >>= 1; }
        return r;
}
static void aes_tables(void)
{
        /* S-box = affine(multiplicative inverse), computed rather than copied */
        for (int x = 0; x < 256; x++) {
                uint8_t inv = 0;
                if (x) for (int y = 1; y < 256; y++) if (gmul((uint8_t) x, (uint8_t) y) == 1) { inv = (uint8_t) y; break; }
                uint8_t s = inv, r = inv;
                for (int i = 0; i < 4; i++) { s = (uint8_t) ((s << 1) | (s >> 7)); r ^= s; }
                r ^= 0x63;
                sbox[x] = r; isbox[r] = (uint8_t) x;
        }
        aes_ready = 1;
}
static void inv_mix_col(uint8_t *c)
{
        uint8_t a0 = c[0], a1 = c[1], a2 = c[2], a3 = c[3];
        c[0] = gmul(a0, 14) ^ gmul(a1, 11) ^ gmul(a2, 13) ^ gmul(a3, 9);
        c[1] = gmul(a0, 9) ^ gmul(a1, 14) ^ gmul(a2, 11) ^ gmul(a3, 13);
        c[2] = gmul(a0, 13) ^ gmul(a1, 9) ^ gmul(a2, 14) ^ gmul(a3, 11);
        c[3] = gmul(a0, 11) ^ gmul(a1, 13) ^ gmul(a2, 9) ^ gmul(a3, 14);
}
static void mix_col(uint8_t *c)
{
        uint8_t a0 = c[0], a1 = c[1], a2 = c[2], a3 = c[3];
        c[0] = xt(a0) ^ (xt(a1) ^ a1) ^ a2 ^ a3;
        c[1] = a0 ^ xt(a1) ^ (xt(a2) ^ a2) ^ a3;
        c[2] = a0 ^ a1 ^ xt(a2) ^ (xt(a3) ^ a3);
        c[3] = (xt(a0) ^ a0) ^ a1 ^ a2 ^ xt(a3);
}
void ref_aes_expand(ref_aes_t *a, const uint8_t *key, int keybits)
{
        if (!aes_ready) aes_tables();
        int nk = keybits / 32, nr = nk + 6, nw = 4 * (nr + 1);
        uint8_t w[60][4], rcon = 1;
        a->nr = nr;
        memcpy(w, key, (size_t) 4 * nk);
        for (int i = nk; i < nw; i++) {
                uint8_t t[4];
                memcpy(t, w[i - 1], 4);
                if (i % nk == 0) {
                        uint8_t x = t[0];
                        t[0] = sbox[t[1]] ^ rcon; t[1] = sbox[t[2]]; t[2] = sbox[t[3]]; t[3] = sbox[x];
                        rcon = xt(rcon);
                } else if (nk > 6 && i % nk == 4) {
                        for (int j = 0; j < 4; j++) t[j] = sbox[t[j]];
                }
                for (int j = 0; j < 4; j++) w[i][j] = w[i - nk][j] ^ t[j];
        }
        memset(a->enc, 0, sizeof a->enc);
        memset(a->dec, 0, sizeof a->dec);
        memcpy(a->enc, w, (size_t) 4 * nw);
        for (int i = 0; i <= nr; i++) {
                memcpy(a->dec[i], a->enc[nr - i], 16);
                if (i != 0 && i != nr) for (int c = 0; c < 4; c++) inv_mix_col(a->dec[i] + 4 * c);
        }
}
void ref_aes_enc(const ref_aes_t *a, const uint8_t in[16], uint8_t out[16])
{
        uint8_t s[16], t[16];
        for (int i = 0; i < 16; i++) s[i] = in[i] ^ a->enc[0][i];
        for (int r = 1; r <= a->nr; r++) {
                for (int i = 0; i < 16; i++) s[i] = sbox[s[i]];
                for (int c = 0; c < 4; c++) for (int rw = 0; rw < 4; rw++) t[4 * c + rw] = s[4 * ((c + rw) & 3) + rw];
                if (r != a->nr) for (int c = 0; c < 4; c++) mix_col(t + 4 * c);
                for (int i = 0; i < 16; i++) s[i] = t[i] ^ a->enc[r][i];
        }
        memcpy(out, s, 16);
}
void ref_aes_dec(const ref_aes_t *a, const uint8_t in[16], uint8_t out[16])
{
        /* straightforward inverse cipher (FIPS-197 5.3) using the encryption schedule */
        uint8_t s[16], t[16];
        for (int i = 0; i < 16; i++) s[i] = in[i] ^ a->enc[a->nr][i];
        for (int r = a->nr - 1; r >= 0; r--) {
                for (int c = 0; c < 4; c++) for (int rw = 0; rw < 4; rw++) t[4 * ((c + rw) & 3) + rw] = s[4 * c + rw];
                for (int i = 0; i < 16; i++) t[i] = isbox[t[i]];
                for (int i = 0; i < 16; i++) s[i] = t[i] ^ a->enc[r][i];
                if (r != 0) for (int c = 0; c < 4; c++) inv_mix_col(s + 4 * c);
        }
        memcpy(out, s, 16);
}

/* ------------------------------ CBC ------------------------------ */
void ref_cbc_enc(const ref_aes_t *a, const uint8_t iv[16], const uint8_t *in, uint8_t *out, size_t len)
{
        uint8_t c[16], x[16];
        memcpy(c, iv, 16);
        for (size_t o = 0; o + 16 <= len; o += 16) {
                for (int i = 0; i < 16; i++) x[i] = in[o + i] ^ c[i];
                ref_aes_enc(a, x, c);
                memcpy(out + o, c, 16);
        }
}
void ref_cbc_dec(const ref_aes_t *a, const uint8_t iv[16], const uint8_t *in, uint8_t *out, size_t len)
{
        uint8_t prev[16], cur[16], x[16];
        memcpy(prev, iv, 16);
        for (size_t o = 0; o + 16 <= len; o += 16) {
                memcpy(cur, in + o, 16);
                ref_aes_dec(a, cur, x);
                for (int i = 0; i < 16; i++) out[o + i] = x[i] ^ prev[i];
                memcpy(prev, cur, 16);
        }
}

/* ------------------------------ GCM ------------------------------ */
void ref_ghash_mul(uint8_t x[16], const uint8_t h[16])
{
        uint8_t z[16] = { 0 }, v[16];
        memcpy(v, h, 16);
        for (int i = 0; i < 128; i++) {
                if (x[i / 8] & (0x80 >> (i % 8))) for (int j = 0; j < 16; j++) z[j] ^= v[j];
                int lsb = v[15] & 1;
                for (int j = 15; j > 0; j--) v[j] = (uint8_t) ((v[j] >> 1) | (v[j - 1] << 7));
                v[0] >>= 1;
                if (lsb) v[0] ^= 0xe1;
        }
        memcpy(x, z, 16);
}
static void ghash_feed(uint8_t y[16], const uint8_t h[16], const uint8_t *p, size_t n)
{
        while (n) {
                size_t k = n < 16 ? n : 16;
                for (size_t i = 0; i < k; i++) y[i] ^= p[i];
                ref_ghash_mul(y, h);
                p += k; n -= k;
        }
}
void ref_gcm(const ref_aes_t *a, int enc, const uint8_t iv[12], const uint8_t *aad, size_t aadlen,
             const uint8_t *in, uint8_t *out, size_t len, uint8_t tag[16])
{
        uint8_t h[16] = { 0 }, j0[16], ctr[16], ks[16], y[16] = { 0 }, lb[16], ej0[16];
        ref_aes_enc(a, h, h);
        memcpy(j0, iv, 12); j0[12] = j0[13] = j0[14] = 0; j0[15] = 1;
        ghash_feed(y, h, aad, aadlen);
        if (!enc) ghash_feed(y, h, in, len);
        memcpy(ctr, j0, 16);
        for (size_t o = 0; o < len; o += 16) {
                uint32_t c = be32(ctr + 12) + 1;
                put_be32(ctr + 12, c);
                ref_aes_enc(a, ctr, ks);
                size_t k = len - o < 16 ? len - o : 16;
                for (size_t i = 0; i < k; i++) out[o + i] = in[o + i] ^ ks[i];
        }
        if (enc) ghash_feed(y, h, out, len);
        put_be64(lb, (uint64_t) aadlen * 8); put_be64(lb + 8, (uint64_t) len * 8);
        ghash_feed(y, h, lb, 16);
        ref_aes_enc(a, j0, ej0);
        for (int i = 0; i < 16; i++) tag[i] = y[i] ^ ej0[i];
}

/* ------------------------------ XTS ------------------------------ */
static void xts_mul_alpha(uint8_t t[16])
{
        int carry = t[15] >> 7;
        for (int i = 15; i > 0; i--) t[i] = (uint8_t) ((t[i] << 1) | (t[i - 1] >> 7));
        t[0] = (uint8_t) (t[0] << 1);
        if (carry) t[0] ^= 0x87;
}
static void xts_blk(const ref_aes_t *k1, int enc, const uint8_t t[16], const uint8_t *in, uint8_t *out)
{
        uint8_t x[16];
        for (int i = 0; i < 16; i++) x[i] = in[i] ^ t[i];
        if (enc) ref_aes_enc(k1, x, x); else ref_aes_dec(k1, x, x);
        for (int i = 0; i < 16; i++) out[i] = x[i] ^ t[i];
}
void ref_xts(const ref_aes_t *k1, const ref_aes_t *k2, int enc, const uint8_t tweak[16],
             const uint8_t *in, uint8_t *out, size_t len)
{
        uint8_t t[16], t2[16], cc[16], pp[16];
        size_t m = len / 16, b = len % 16, full = b ? m - 1 : m;
        ref_aes_enc(k2, tweak, t);
        /* work on a private copy so in == out is fine */
        uint8_t *src = malloc(len ? len : 1);
        memcpy(src, in, len);
        for (size_t j = 0; j < full; j++) { xts_blk(k1, enc, t, src + 16 * j, out + 16 * j); xts_mul_alpha(t); }
        if (b) {
                memcpy(t2, t, 16); xts_mul_alpha(t2);   /* t = T_{m-1}, t2 = T_m */
                if (enc) {
                        xts_blk(k1, 1, t, src + 16 * (m - 1), cc);
                        memcpy(pp, src + 16 * m, b); memcpy(pp + b, cc + b, 16 - b);
                        xts_blk(k1, 1, t2, pp, out + 16 * (m - 1));
                        memcpy(out + 16 * m, cc, b);
                } else {
                        xts_blk(k1, 0, t2, src + 16 * (m - 1), pp);
                        memcpy(cc, src + 16 * m, b); memcpy(cc + b, pp + b, 16 - b);
                        xts_blk(k1, 0, t, cc, out + 16 * (m - 1));
                        memcpy(out + 16 * m, pp, b);
                }
        }
        free(src);
}

/* ------------------------------ multi-hash ------------------------------ */
/* Stream padded SHA-style to a multiple of 1024 bytes (0x80, zeros, 64-bit big-endian
 * bit length); 32-bit word k of each 1 KiB block goes to segment k mod 16; each segment
 * is run through the raw compression function; the [word][segment] array of interim
 * digests (32-bit words in little-endian memory order) is hashed with the standard hash. */
static void mh_generic(const uint8_t *p, size_t n, int words, uint8_t *out)
{
        uint32_t seg[16][8];
        static const uint32_t iv1[5] = { 0x67452301, 0xefcdab89, 0x98badcfe, 0x10325476, 0xc3d2e1f0 };
        static const uint32_t iv256[8] = { 0x6a09e667, 0xbb67ae85, 0x3c6ef372, 0xa54ff53a, 0x510e527f, 0x9b05688c, 0x1f83d9ab, 0x5be0cd19 };
        for (int s = 0; s < 16; s++) memcpy(seg[s], words == 5 ? iv1 : iv256, (size_t) 4 * words);
        size_t padded = ((n + 1 + 8 + 1023) / 1024) * 1024;
        uint8_t *m = calloc(padded, 1);
        memcpy(m, p, n);
        m[n] = 0x80;
        put_be64(m + padded - 8, (uint64_t) n * 8);
        for (size_t o = 0; o < padded; o += 1024) {
                for (int s = 0; s < 16; s++) {
                        uint8_t blk[64];
                        for (int i = 0; i < 16; i++) memcpy(blk + 4 * i, m + o + 4 * (i * 16 + s), 4);
                        if (words == 5) ref_sha1_compress(seg[s], blk); else ref_sha256_compress(seg[s], blk);
                }
        }
        free(m);
        uint8_t outer[8 * 16 * 4];
        for (int j = 0; j < words; j++) for (int s = 0; s < 16; s++) put_le32(outer + 4 * (j * 16 + s), seg[s][j]);
        ref_hash(words == 5 ? REF_SHA1 : REF_SHA256, outer, (size_t) words * 64, out);
}
void ref_mh_sha1(const uint8_t *p, size_t n, uint8_t out[20]) { mh_generic(p, n, 5, out); }
void ref_mh_sha256(const uint8_t *p, size_t n, uint8_t out[32]) { mh_generic(p, n, 8, out); }

static inline uint64_t fmix64(uint64_t k)
{
        k ^= k >> 33; k *= 0xff51afd7ed558ccdULL; k ^= k >> 33; k *= 0xc4ceb9fe1a85ec53ULL; k ^= k >> 33;
        return k;
}
void ref_murmur3_x64_128(const uint8_t *p, size_t n, uint64_t seed, uint8_t out[16])
{
        const uint64_t c1 = 0x87c37b91114253d5ULL, c2 = 0x4cf5ad432745937fULL;
        uint64_t h1 = seed, h2 = seed;
        size_t nb = n / 16;
        for (size_t i = 0; i < nb; i++) {
                uint64_t k1 = le64(p + 16 * i), k2 = le64(p + 16 * i + 8);
                k1 *= c1; k1 = rol64(k1, 31); k1 *= c2; h1 ^= k1;
                h1 = rol64(h1, 27); h1 += h2; h1 = h1 * 5 + 0x52dce729;
                k2 *= c2; k2 = rol64(k2, 33); k2 *= c1; h2 ^= k2;
                h2 = rol64(h2, 31); h2 += h1; h2 = h2 * 5 + 0x38495ab5;
        }
        const uint8_t *t = p + 16 * nb;
        uint64_t k1 = 0, k2 = 0;
        unsigned r = (unsigned) (n & 15);
        for (unsigned i = r; i > 8; i--) k2 ^= (uint64_t) t[i - 1] << (8 * (i - 9));
        if (r > 8) { k2 *= c2; k2 = rol64(k2, 33); k2 *= c1; h2 ^= k2; }
        for (unsigned i = (r > 8 ? 8 : r); i > 0; i--) k1 ^= (uint64_t) t[i - 1] << (8 * (i - 1));
        if (r > 0) { k1 *= c1; k1 = rol64(k1, 31); k1 *= c2; h1 ^= k1; }
        h1 ^= (uint64_t) n; h2 ^= (uint64_t) n;
        h1 += h2; h2 += h1;
        h1 = fmix64(h1); h2 = fmix64(h2);
        h1 += h2; h2 += h1;
        put_le64(out, h1); put_le64(out + 8, h2);
}

/* ------------------------------ rolling hash ------------------------------ */
uint64_t ref_rolling_hash(const uint8_t *b, unsigned w)
{
        uint64_t h = 0;
        for (unsigned i = 0; i < w; i++) h ^= rol64(ref_rolling_table[b[i]], (int) (w - 1 - i));
        return h;
}
uint32_t ref_rolling_mask(uint32_t mean, uint32_t shift)
{
        uint32_t m = mean < 2 ? 2 : mean, p = 1;
        while ((uint64_t) p * 2 <= m) p *= 2;
        return rol32(p - 1, (int) (shift & 31));
}

/* ------------------------------ self-check ------------------------------ */
static int hexeq(const uint8_t *b, size_t n, const char *hex)
{
        for (size_t i = 0; i < n; i++) {
                unsigned v; char t[3] = { hex[2 * i], hex[2 * i + 1], 0 };
                v = (unsigned) strtoul(t, 0, 16);
                if (b[i] != v) return 0;
        }
        return 1;
}
static void unhex(const char *hex, uint8_t *out)
{
        for (size_t i = 0; hex[2 * i]; i++) { char t[3] = { hex[2 * i], hex[2 * i + 1], 0 }; out[i] = (uint8_t) strtoul(t, 0, 16); }
}
int ref_selfcheck(void)
{
        uint8_t d[64], k[64], pt[64], ct[64], t[16], iv[16];
        ref_aes_t a, a2;
        ref_hash(REF_SHA1, "abc", 3, d); if (!hexeq(d, 20, "a9993e364706816aba3e25717850c26c9cd0d89d")) return 1;
        ref_hash(REF_SHA256, "abc", 3, d); if (!hexeq(d, 32, "ba7816bf8f01cfea414140de5dae2223b00361a396177a9cb410ff61f20015ad")) return 2;
        ref_hash(REF_SHA512, "abc", 3, d);
        if (!hexeq(d, 64, "ddaf35a193617abacc417349ae20413112e6fa4e89a97ea20a9eeee64b55d39a2192992a274fc1a836ba3c23a3feebbd454d4423643ce80e2a9ac94fa54ca49f")) return 3;
        ref_hash(REF_MD5, "abc", 3, d); if (!hexeq(d, 16, "900150983cd24fb0d6963f7d28e17f72")) return 4;
        ref_hash(REF_SM3, "abc", 3, d); if (!hexeq(d, 32, "66c7f0f462eeedd9d1f2d46bdc10e4e24167c4875cf2f7a2297da02b8f4ba8e0")) return 5;
        /* FIPS-197 appendix C */
        unhex("000102030405060708090a0b0c0d0e0f101112131415161718191a1b1c1d1e1f", k);
        unhex("00112233445566778899aabbccddeeff", pt);
        ref_aes_expand(&a, k, 128); ref_aes_enc(&a, pt, ct); if (!hexeq(ct, 16, "69c4e0d86a7b0430d8cdb78070b4c55a")) return 6;
        ref_aes_dec(&a, ct, d); if (memcmp(d, pt, 16)) return 7;
        ref_aes_expand(&a, k, 192); ref_aes_enc(&a, pt, ct); if (!hexeq(ct, 16, "dda97ca4864cdfe06eaf70a0ec0d7191")) return 8;
        ref_aes_expand(&a, k, 256); ref_aes_enc(&a, pt, ct); if (!hexeq(ct, 16, "8ea2b7ca516745bfeafc49904b496089")) return 9;
        ref_aes_dec(&a, ct, d); if (memcmp(d, pt, 16)) return 10;
        /* GCM test case 4 (McGrew-Viega) */
        {
                uint8_t key[16], P[60], A[20], C[60];
                unhex("feffe9928665731c6d6a8f9467308308", key);
                unhex("cafebabefacedbaddecaf888", iv);
                unhex("d9313225f88406e5a55909c5aff5269a86a7a9531534f7da2e4c303d8a318a721c3c0c95956809532fcf0e2449a6b525b16aedf5aa0de657ba637b39", P);
                unhex("feedfacedeadbeeffeedfacedeadbeefabaddad2", A);
                ref_aes_expand(&a, key, 128);
                ref_gcm(&a, 1, iv, A, 20, P, C, 60, t);
                if (!hexeq(C, 60, "42831ec2217774244b7221b784d0d49ce3aa212f2c02a4e035c17e2329aca12e21d514b25466931c7d8f6a5aac84aa051ba30b396a0aac973d58e091")) return 11;
                if (!hexeq(t, 16, "5bc94fbc3221a5db94fae95ae7121a47")) return 12;
                ref_gcm(&a, 0, iv, A, 20, C, d, 60, t);
                if (memcmp(d, P, 60) || !hexeq(t, 16, "5bc94fbc3221a5db94fae95ae7121a47")) return 13;
        }
        /* IEEE 1619 vector 15 (17 bytes, stealing) */
        {
                uint8_t k1[16], k2[16], tw[16] = { 0 }, P[17], C[17], R[17];
                unhex("fffefdfcfbfaf9f8f7f6f5f4f3f2f1f0", k1);
                unhex("bfbebdbcbbbab9b8b7b6b5b4b3b2b1b0", k2);
                unhex("9a785634120000000000000000000000", tw);
                unhex("000102030405060708090a0b0c0d0e0f10", P);
                ref_aes_expand(&a, k1, 128); ref_aes_expand(&a2, k2, 128);
                ref_xts(&a, &a2, 1, tw, P, C, 17);
                if (!hexeq(C, 17, "6c1625db4671522d3d7599601de7ca09ed")) return 14;
                ref_xts(&a, &a2, 0, tw, C, R, 17);
                if (memcmp(R, P, 17)) return 15;
        }
        /* SP 800-38A F.2.1 CBC-AES128 first block */
        {
                uint8_t key[16], P[16], C[16];
                unhex("2b7e151628aed2a6abf7158809cf4f3c", key);
                unhex("000102030405060708090a0b0c0d0e0f", iv);
                unhex("6bc1bee22e409f96e93d7e117393172a", P);
                ref_aes_expand(&a, key, 128);
                ref_cbc_enc(&a, iv, P, C, 16);
                if (!hexeq(C, 16, "7649abac8119b246cee98e9b12e9197d")) return 16;
                ref_cbc_dec(&a, iv, C, d, 16);
                if (memcmp(d, P, 16)) return 17;
        }
        /* MurmurHash3_x64_128("", seed 0) = 0 ; ("hello", 0) published value */
        ref_murmur3_x64_128((const uint8_t *) "", 0, 0, d);
        for (int i = 0; i < 16; i++) if (d[i]) return 18;
        ref_murmur3_x64_128((const uint8_t *) "hello", 5, 0, d);
        if (!hexeq(d, 16, "029bbd41b3a7d8cb191dae486a901e5b")) return 19;
        if (ref_rolling_mask(1024, 0) != 1023 || ref_rolling_mask(0, 0) != 1 || ref_rolling_mask(1025, 4) != (1023u << 4)) return 20;
        return 0;
}
