/* params - C16: every isal_ entry point refuses invalid arguments with its documented code,
 * without dereferencing anything and without touching outputs; in-domain calls return 0;
 * legacy entry points compute the same results as their isal_ counterparts. */
#include "isal_entries.h"
static char rbuf[300];
/* FIPS_MODE build: the module is put in the operational state; entry points of non-approved algorithms answer FIPS_INVALID_ALGO to every call */
#ifdef VERIF_FIPS
extern void asm_set_self_tests_status(int);
static int unapproved(const entry_t *e) { return strstr(e->name, "md5") || strstr(e->name, "sm3") || strstr(e->name, "mh_sha") || strstr(e->name, "rolling"); }
#else
static int unapproved(const entry_t *e) { (void) e; return 0; }
#endif

static void test_entry(entry_t *e, uint64_t c)
{
        rng_t r; rng_seed(&r, mix64(g_seed ^ 0x9a9a, mix64(c, (uint64_t) (e - entries))));
        char key[200];
        int pidx[10], np = 0;
        for (int i = 0; i < e->nargs; i++) if (e->a[i].kind != 'S') pidx[np++] = i;
        /* (a) every non-empty subset of pointer arguments NULL, the others aimed into an inaccessible page */
        /* hash submits: the data pointer is required for ENTIRE and for UPDATE (sha-style wrappers) resp. for len != 0 (sm3): both flag values */
        int is_hsub = e->nargs == 6 && e->a[3].kind == 'B';
        for (unsigned s0 = 1; s0 < (1u << np) * (is_hsub ? 2u : 1u); s0++) {
                unsigned s = s0 & ((1u << np) - 1), alt = s0 >> np;
                if (!s) continue;
                uint64_t v[10] = { 0 }; unsigned accept[10]; int nacc = 0;
                for (int i = 0; i < e->nargs; i++) if (e->a[i].kind == 'S') v[i] = e->a[i].valid;
                if (is_hsub) v[5] = alt ? ISAL_HASH_UPDATE : ISAL_HASH_ENTIRE;
                for (int k = 0; k < np; k++) {
                        int i = pidx[k];
                        if (s >> k & 1) { v[i] = 0; accept[nacc++] = (unsigned) e->a[i].code; }
                        else v[i] = (uint64_t) (uintptr_t) gnone_ptr() + 64 * (uint64_t) k;
                }
                int rc = -12345;
                snprintf(rbuf, sizeof rbuf, "{\"engine\":\"params\",\"entry\":\"%s\",\"null_mask\":%u,\"seed\":%llu,\"case\":%llu}", e->name, s, (unsigned long long) g_seed, (unsigned long long) c);
                LABEL("%s null-mask=%x", e->name, s);
                int faulted = GUARDED(rc = call(e, v));
                cur_label[0] = 0;
                out_count("null_subset_calls", 1);
                { static int ns; if (ns < 30) { ns++; clog_on = 1;
                  clog_title("invalid-argument calls: NULL subsets (the other pointers aim into a PROT_NONE region, so any dereference faults), then single out-of-domain scalars with byte-image comparison of every buffer");
                  clog_event("%s with NULL mask %x over its %d pointer arguments: %s, returned %d", e->name, s, np, faulted ? "FAULTED" : "no dereference", rc);
                  clog_on = 0; } }
                feat(mix64(0x9a, mix64((uint64_t) (e - entries), s0)));
                if (faulted) { snprintf(key, sizeof key, "param-deref %s", e->name); out_viol("C16", key, rbuf, "%s with NULL mask %x dereferenced an argument (fault at %p) before refusing the call", e->name, s, fault_last.addr); continue; }
                if (unapproved(e) && !faulted && rc == ISAL_CRYPTO_ERR_FIPS_INVALID_ALGO) continue;
                int ok = 0; for (int k = 0; k < nacc; k++) if ((unsigned) rc == accept[k]) ok = 1;
                if (rc == 0) { snprintf(key, sizeof key, "param-null-accepted %s", e->name); out_viol("C16", key, rbuf, "%s with NULL mask %x returned 0", e->name, s); }
                else if (!ok) { snprintf(key, sizeof key, "param-wrong-code %s", e->name); out_viol("C16", key, rbuf, "%s with NULL mask %x returned %d, not the documented code of any missing argument", e->name, s, rc); }
        }
        if (unapproved(e)) return;
        /* (b) one scalar out of domain, everything else valid: documented code, outputs untouched */
        for (int b = 0; b < e->nbad; b++) {
                alloc_valid(e, &r);
                uint64_t v[10] = { 0 };
                for (int i = 0; i < e->nargs; i++) v[i] = e->a[i].kind == 'S' ? e->a[i].valid : (uint64_t) (uintptr_t) bufs[i];
                v[e->bad[b].arg] = e->bad[b].value;
                snprintf(rbuf, sizeof rbuf, "{\"engine\":\"params\",\"entry\":\"%s\",\"bad_arg\":%d,\"bad_value\":%llu,\"seed\":%llu,\"case\":%llu}", e->name, e->bad[b].arg, (unsigned long long) e->bad[b].value, (unsigned long long) g_seed, (unsigned long long) c);
                LABEL("%s bad arg%d=%llx", e->name, e->bad[b].arg, (unsigned long long) e->bad[b].value);
                int rc = -12345, faulted = GUARDED(rc = call(e, v));
                cur_label[0] = 0;
                out_count("bad_scalar_calls", 1);
                { static int ns; if (ns < 16) { ns++; clog_on = 1;
                  clog_event("%s with argument %d = %llu (out of domain), all else valid: returned %d (documented code %d)", e->name, e->bad[b].arg, (unsigned long long) e->bad[b].value, rc, e->bad[b].code);
                  clog_on = 0; } }
                feat(mix64(0x9b, mix64((uint64_t) (e - entries), (uint64_t) b)));
                if (faulted) { snprintf(key, sizeof key, "param-fault %s", e->name); out_viol("C16", key, rbuf, "%s faulted with scalar argument %d = %llu", e->name, e->bad[b].arg, (unsigned long long) e->bad[b].value); free_valid(e); continue; }
                if (rc != e->bad[b].code) { snprintf(key, sizeof key, "param-scalar-code %s arg%d", e->name, e->bad[b].arg); out_viol("C16", key, rbuf, "%s with argument %d = %llu returned %d, documented code is %d", e->name, e->bad[b].arg, (unsigned long long) e->bad[b].value, rc, e->bad[b].code); }
                for (int i = 0; i < e->nargs; i++) {
                        if (!bufs[i]) continue;
                        size_t n = e->a[i].size, skip_lo = 0, skip_hi = 0;
                        /* the context's error field is the documented reporting channel of a rejected hash submit */
                        if (e->a[3].kind == 'B' && e->nargs == 6 && i == 1) {
                                const halg_t *ha = halg_by_name(strstr(e->name, "sha1") ? "sha1" : strstr(e->name, "sha256") ? "sha256" : strstr(e->name, "sha512") ? "sha512" : strstr(e->name, "md5") ? "md5" : "sm3");
                                skip_lo = ha->off_error; skip_hi = skip_lo + 4;
                        }
                        if (e->a[3].kind == 'B' && e->nargs == 6 && i == 2) continue;    /* ctx_out receives the handed-back context */
                        for (size_t o = 0; o < n; o++) if (bufs[i][o] != copies[i][o] && !(o >= skip_lo && o < skip_hi)) {
                                snprintf(key, sizeof key, "param-side-effect %s arg%d", e->name, i);
                                out_viol("C16", key, rbuf, "%s refused argument %d = %llu but changed byte %zu of argument %d", e->name, e->bad[b].arg, (unsigned long long) e->bad[b].value, o, i);
                                break;
                        }
                }
                free_valid(e);
        }
        /* (b2) the largest length of the documented domain is not refused: with the data pointers aimed into the PROT_NONE region a call that
         * passed its parameter checks faults on its first data access, one that refuses returns the length code */
        if (strstr(e->name, "gcm") && e->nbad && e->bad[0].arg == 4 && e->bad[0].value == ISAL_GCM_MAX_LEN + 1) {
                alloc_valid(e, &r);
                uint64_t v[10] = { 0 };
                for (int i = 0; i < e->nargs; i++) v[i] = e->a[i].kind == 'S' ? e->a[i].valid : (uint64_t) (uintptr_t) bufs[i];
                v[4] = ISAL_GCM_MAX_LEN; v[2] = v[3] = (uint64_t) (uintptr_t) gnone_ptr();
                snprintf(rbuf, sizeof rbuf, "{\"engine\":\"params\",\"entry\":\"%s\",\"max_len\":1,\"seed\":%llu,\"case\":%llu}", e->name, (unsigned long long) g_seed, (unsigned long long) c);
                LABEL("%s len=ISAL_GCM_MAX_LEN", e->name);
                int rc = -12345, faulted = GUARDED(rc = call(e, v));
                cur_label[0] = 0;
                out_count("max_length_calls", 1);
                if (!faulted && rc != 0) { snprintf(key, sizeof key, "param-max-length-refused %s", e->name); out_viol("C16", key, rbuf, "%s returned %d for len = ISAL_GCM_MAX_LEN, the largest length of the documented domain", e->name, rc); }
                free_valid(e);
        }
        /* (c) in-domain calls, including the permitted NULLs, return 0 */
        for (int variant = 0; variant < 3; variant++) {
                alloc_valid(e, &r);
                uint64_t v[10] = { 0 };
                for (int i = 0; i < e->nargs; i++) v[i] = e->a[i].kind == 'S' ? e->a[i].valid : (uint64_t) (uintptr_t) bufs[i];
                int used = variant == 0;
                for (int i = 0; i < e->nargs && variant; i++) {
                        if (e->a[i].kind == 'L' && variant == 1) { v[e->a[i].aux] = 0; v[i] = 0; used = 1; }        /* NULL with zero length */
                        if (e->a[i].kind == 'B' && variant == 1) { v[i] = 0; used = 1; if (e->a[i].aux) v[4] = 0; else { v[4] = 0; v[5] = ISAL_HASH_FIRST; } }
                        if (e->a[i].kind == 'B' && variant == 2) { v[i] = 0; v[4] = 0; v[5] = e->a[i].aux ? ISAL_HASH_ENTIRE : ISAL_HASH_FIRST; used = 1; }
                        if (e->a[i].kind == 'S' && variant == 2 && strstr(e->name, "gcm") && e->a[i].valid == 16) { v[i] = rng_below(&r, 2) ? 8 : 12; used = 1; }
                        if (e->a[i].kind == 'S' && variant == 2 && strstr(e->name, "rolling_hash2_init")) { v[i] = 1 + rng_below(&r, 48); used = 1; }
                        if (e->a[i].kind == 'S' && variant == 2 && strstr(e->name, "xts") ) { v[i] = 16 + rng_below(&r, 48); used = 1; }
                }
                if (used) {
                        snprintf(rbuf, sizeof rbuf, "{\"engine\":\"params\",\"entry\":\"%s\",\"valid_variant\":%d,\"seed\":%llu,\"case\":%llu}", e->name, variant, (unsigned long long) g_seed, (unsigned long long) c);
                        LABEL("%s valid variant %d", e->name, variant);
                        int rc = call(e, v);
                        cur_label[0] = 0;
                        out_count("valid_calls", 1);
                        feat(mix64(0x9c, mix64((uint64_t) (e - entries), (uint64_t) variant)));
                        if (rc != 0) { snprintf(key, sizeof key, "param-valid-refused %s v%d", e->name, variant); out_viol("C16", key, rbuf, "%s returned %d for arguments inside the documented domain (variant %d: %s)", e->name, rc, variant, variant == 0 ? "all present" : variant == 1 ? "NULL data with zero length" : "other in-domain scalars"); }
                        /* drain hash managers so nothing is left pointing at freed memory */
                }
                free_valid(e);
        }
}

/* ---- (d) legacy == isal_ on random valid inputs ---- */
static void legacy_case(uint64_t c)
{
        rng_t r; rng_seed(&r, mix64(g_seed ^ 0x1e9ac, c));
        char key[200];
        snprintf(rbuf, sizeof rbuf, "{\"engine\":\"params\",\"legacy\":1,\"seed\":%llu,\"case\":%llu}", (unsigned long long) g_seed, (unsigned long long) c);
#define DIFF(what, a, b, n) do { out_count("legacy_comparisons", 1); if (memcmp(a, b, n)) { snprintf(key, sizeof key, "legacy-differs %s", what); out_viol("C16", key, rbuf, "%s: legacy and isal_ entry points produced different bytes for the same valid input", what); } } while (0)
        uint8_t keyb[32], iv[16], aad[64], in[512], o1[512], o2[512], t1[16], t2[16];
        rng_fill(&r, keyb, 32); rng_fill(&r, iv, 16); rng_fill(&r, aad, 64); rng_fill(&r, in, 512);
        uint32_t len = rng_below(&r, 400), aadl = rng_below(&r, 64);
        static const uint32_t tl[3] = { 8, 12, 16 }; uint32_t tg = tl[rng_below(&r, 3)];
        for (int ks = 0; ks < 2; ks++) {
                struct isal_gcm_key_data k1, k2; struct isal_gcm_context_data c1, c2;
                gcm_isal.pre[ks](keyb, &k1); gcm_legacy.pre[ks](keyb, &k2);
                DIFF("gcm_pre", &k1, &k2, 16 * (ks ? 15 : 11));
                for (int d = 0; d < 2; d++) for (int nt = 0; nt < 2; nt++) {
                        static uint8_t ai[512] __attribute__((aligned(64))), ao1[512] __attribute__((aligned(64))), ao2[512] __attribute__((aligned(64)));
                        memcpy(ai, in, 512);
                        gcm_isal.one[ks][d][nt](&k1, &c1, ao1, ai, len, iv, aad, aadl, t1, tg); gcm_legacy.s.one[ks][d][nt](&k2, &c2, ao2, ai, len, iv, aad, aadl, t2, tg);
                        DIFF("gcm one-shot", ao1, ao2, len); DIFF("gcm one-shot tag", t1, t2, tg);
                        uint32_t cut = nt ? (rng_below(&r, len / 64 + 1) * 64) : rng_below(&r, len + 1);
                        gcm_isal.init[ks](&k1, &c1, iv, aad, aadl); gcm_legacy.s.init[ks](&k2, &c2, iv, aad, aadl);
                        gcm_isal.upd[ks][d][nt](&k1, &c1, ao1, ai, cut); gcm_legacy.s.upd[ks][d][nt](&k2, &c2, ao2, ai, cut);
                        gcm_isal.upd[ks][d][0](&k1, &c1, ao1 + cut, ai + cut, len - cut); gcm_legacy.s.upd[ks][d][0](&k2, &c2, ao2 + cut, ai + cut, len - cut);
                        gcm_isal.fin[ks][d](&k1, &c1, t1, tg); gcm_legacy.s.fin[ks][d](&k2, &c2, t2, tg);
                        DIFF("gcm stream", ao1, ao2, len); DIFF("gcm stream tag", t1, t2, tg);
                }
                ref_aes_t a1, a2; ref_aes_expand(&a1, keyb, ks_bits2[ks]); ref_aes_expand(&a2, in, ks_bits2[ks]);
                uint32_t xl = 16 + rng_below(&r, 300);
                for (int d = 0; d < 2; d++) for (int xp = 0; xp < 2; xp++) {
                        const uint8_t *pk1 = xp ? (d ? (uint8_t *) a1.dec : (uint8_t *) a1.enc) : keyb, *pk2 = xp ? (uint8_t *) a2.enc : in;
                        int rc = xts_isal[ks][d][xp](pk2, pk1, iv, xl, in + 32, o1); xts_legacy[ks][d][xp](pk2, pk1, iv, xl, in + 32, o2);
                        if (rc) out_viol("C16", "legacy-xts-rc", rbuf, "isal xts returned %d on valid input", rc);
                        DIFF("xts", o1, o2, xl);
                }
        }
        for (int ks = 0; ks < 3; ks++) {
                uint8_t e1[240], d1[240], e2[240], d2[240];
                keyexp_isal[ks](keyb, e1, d1); keyexp_legacy[ks](keyb, e2, d2);
                size_t n = (size_t) 16 * (ks == 0 ? 11 : ks == 1 ? 13 : 15);
                DIFF("keyexp enc", e1, e2, n); DIFF("keyexp dec", d1, d2, n);
                struct isal_cbc_key_data kd __attribute__((aligned(16)));
                aes_cbc_precomp(keyb, ks == 0 ? 16 : ks == 1 ? 24 : 32, &kd);
                DIFF("aes_cbc_precomp enc", kd.enc_keys, e1, n); DIFF("aes_cbc_precomp dec", kd.dec_keys, d1, n);
                uint32_t cl = rng_below(&r, 5) == 0 ? 0 : 16 * (1 + rng_below(&r, 30));   /* zero blocks is inside the documented domain */
                uint8_t ivb[16] __attribute__((aligned(16))); memcpy(ivb, iv, 16);
                memset(o1, 0x77, 16); memset(o2, 0x77, 16);
                LABEL("cbc legacy vs isal len=%u", cl);
                if (GUARDED((cbc_enc_isal[ks](in, ivb, e1, o1, cl), cbc_enc_legacy[ks](in, ivb, e1, o2, cl)))) { snprintf(key, sizeof key, "legacy-differs cbc enc (fault)"); out_viol("C16", key, rbuf, "cbc enc %d len=%u: one of the two entry points faulted at %p", ks_bits3[ks], cl, fault_last.addr); }
                else DIFF("cbc enc", o1, o2, cl ? cl : 16);
                if (GUARDED((cbc_dec_isal[ks](in, ivb, d1, o1, cl), cbc_dec_legacy[ks](in, ivb, d1, o2, cl)))) { snprintf(key, sizeof key, "legacy-differs cbc dec (fault)"); out_viol("C16", key, rbuf, "cbc dec %d len=%u: one of the two entry points faulted at %p", ks_bits3[ks], cl, fault_last.addr); }
                else DIFF("cbc dec", o1, o2, cl ? cl : 16);
                cur_label[0] = 0;
        }
        /* hashes: a few jobs through both APIs */
        for (int ai = 0; ai < 5; ai++) {
                const halg_t *a = &halgs[ai];
                uint8_t *m1 = aligned_alloc(64, (a->mgr_size + 63) & ~(size_t) 63), *m2 = aligned_alloc(64, (a->mgr_size + 63) & ~(size_t) 63);
                uint8_t *c1[3], *c2[3]; void *out;
                a->i_init(m1); a->l_init(m2);
                for (int k = 0; k < 3; k++) {
                        c1[k] = aligned_alloc(64, (a->ctx_size + 63) & ~(size_t) 63); c2[k] = aligned_alloc(64, (a->ctx_size + 63) & ~(size_t) 63);
                        a->ctx_init(c1[k]); a->ctx_init(c2[k]);
                        uint32_t l = rng_below(&r, 500), cut = rng_below(&r, l + 1);
                        a->i_submit(m1, c1[k], &out, in, cut, ISAL_HASH_FIRST); a->l_submit(m2, c2[k], in, cut, ISAL_HASH_FIRST);
                        while (a->i_flush(m1, &out) == 0 && out) ;
                        while (a->l_flush(m2)) ;
                        a->i_submit(m1, c1[k], &out, in + cut, l - cut, ISAL_HASH_LAST); a->l_submit(m2, c2[k], in + cut, l - cut, ISAL_HASH_LAST);
                }
                while (a->i_flush(m1, &out) == 0 && out) ;
                while (a->l_flush(m2)) ;
                for (int k = 0; k < 3; k++) { DIFF(a->name, c1[k] + a->off_digest, c2[k] + a->off_digest, (size_t) a->dbytes); free(c1[k]); free(c2[k]); }
                free(m1); free(m2);
        }
        /* multi-hash, murmur, rolling */
        {
                uint32_t l = rng_below(&r, 512), cut = rng_below(&r, l + 1);
                struct isal_mh_sha1_ctx *x1 = malloc(sizeof *x1), *x2 = malloc(sizeof *x2); uint32_t g1[8], g2[8];
                isal_mh_sha1_init(x1); mh_sha1_init(x2); isal_mh_sha1_update(x1, in, cut); mh_sha1_update(x2, in, cut); isal_mh_sha1_update(x1, in + cut, l - cut); mh_sha1_update(x2, in + cut, l - cut);
                isal_mh_sha1_finalize(x1, g1); mh_sha1_finalize(x2, g2); DIFF("mh_sha1", g1, g2, 20);
                mh_sha1_init(x2); mh_sha1_update_base(x2, in, l); mh_sha1_finalize_base(x2, g2); DIFF("mh_sha1 base", g1, g2, 20);
                free(x1); free(x2);
                struct isal_mh_sha256_ctx *y1 = malloc(sizeof *y1), *y2 = malloc(sizeof *y2);
                isal_mh_sha256_init(y1); mh_sha256_init(y2); isal_mh_sha256_update(y1, in, cut); mh_sha256_update(y2, in, cut); isal_mh_sha256_update(y1, in + cut, l - cut); mh_sha256_update(y2, in + cut, l - cut);
                isal_mh_sha256_finalize(y1, g1); mh_sha256_finalize(y2, g2); DIFF("mh_sha256", g1, g2, 32);
                mh_sha256_init(y2); mh_sha256_update_base(y2, in, l); mh_sha256_finalize_base(y2, g2); DIFF("mh_sha256 base", g1, g2, 32);
                free(y1); free(y2);
                struct isal_mh_sha1_murmur3_x64_128_ctx *z1 = malloc(sizeof *z1), *z2 = malloc(sizeof *z2); uint8_t u1[16], u2[16];
                uint64_t seed = rng_u64(&r);
                isal_mh_sha1_murmur3_x64_128_init(z1, seed); mh_sha1_murmur3_x64_128_init(z2, seed);
                isal_mh_sha1_murmur3_x64_128_update(z1, in, cut); mh_sha1_murmur3_x64_128_update(z2, in, cut); isal_mh_sha1_murmur3_x64_128_update(z1, in + cut, l - cut); mh_sha1_murmur3_x64_128_update(z2, in + cut, l - cut);
                isal_mh_sha1_murmur3_x64_128_finalize(z1, g1, u1); mh_sha1_murmur3_x64_128_finalize(z2, g2, u2); DIFF("mh_sha1_murmur3 sha1", g1, g2, 20); DIFF("mh_sha1_murmur3 murmur", u1, u2, 16);
                mh_sha1_murmur3_x64_128_init(z2, seed); mh_sha1_murmur3_x64_128_update_base(z2, in, l); mh_sha1_murmur3_x64_128_finalize_base(z2, g2, u2); DIFF("mh_sha1_murmur3 base sha1", g1, g2, 20); DIFF("mh_sha1_murmur3 base murmur", u1, u2, 16);
                free(z1); free(z2);
                struct isal_rh_state2 *s1 = malloc(sizeof *s1), *s2 = malloc(sizeof *s2);
                uint32_t w = 1 + rng_below(&r, 48), mask = (1u << rng_below(&r, 8)) - 1, trig = rng_below(&r, 256) & mask, f1 = 0, f2 = 0; int mt = 0;
                isal_rolling_hash2_init(s1, w); rolling_hash2_init(s2, w); isal_rolling_hash2_reset(s1, in); rolling_hash2_reset(s2, in);
                isal_rolling_hash2_run(s1, in + 48, l > 48 ? l - 48 : 0, mask, trig, &f1, &mt); int m2 = rolling_hash2_run(s2, in + 48, l > 48 ? l - 48 : 0, mask, trig, &f2);
                DIFF("rolling offset", &f1, &f2, 4); DIFF("rolling match", &mt, &m2, 4); DIFF("rolling state", &s1->hash, &s2->hash, 8);
                uint32_t mk = 0; isal_rolling_hashx_mask_gen(l + 2, w & 31, &mk); uint32_t mk2 = rolling_hashx_mask_gen((long) l + 2, (int) (w & 31)); DIFF("mask_gen", &mk, &mk2, 4);
                /* the whole uint32_t domain of mean: around every power of two up to 2^31, and the top of the range */
                uint32_t bm = rng_chance(&r, 20) ? 0xffffffffu - rng_below(&r, 4) : (1u << rng_below(&r, 32)) + rng_below(&r, 3) - 1;
                mk = 0; isal_rolling_hashx_mask_gen(bm, w & 31, &mk); mk2 = rolling_hashx_mask_gen((long) bm, (int) (w & 31)); DIFF("mask_gen (large mean)", &mk, &mk2, 4);
                free(s1); free(s2);
        }
        feat(mix64(0x1e9, c));
}

int main(int argc, char **argv)
{
        out_init(argc, argv);
        if (ref_selfcheck()) out_err("reference oracle self-check failed");
#ifdef VERIF_FIPS
        asm_set_self_tests_status(0);
#endif
        for (uint64_t c = g_from; c < g_from + g_count; c++) {
                for (int i = 0; i < NENT; i++) test_entry(&entries[i], c);
#ifndef VERIF_FIPS
                for (int k = 0; k < 20; k++) legacy_case(c * 20 + (uint64_t) k);
#endif
        }
        printf("{\"t\":\"called\",\"names\":[");
        for (int i = 0; i < NENT; i++) printf("%s\"%s\"", i ? "," : "", entries[i].name);
        printf(",\"isal_self_tests\",\"isal_crypto_get_version\",\"isal_crypto_get_version_str\"]}\n");
        out_count("entries_described", (uint64_t) NENT);
        out_sample("{\"engine\":\"params\",\"entries\":%d,\"example\":\"%s: every non-empty NULL subset of its %d pointer arguments, %d out-of-domain scalars, in-domain variants\"}", NENT, entries[0].name, 7, entries[0].nbad);
        out_finish();
        return viol_count() ? 1 : 0;
}
