/* hashmb - history driver + sequential model for the multi-buffer hash managers.
 * Serves C01 (digest oracle), C06 (job accounting model), C11 (rejected submits),
 * C15 (length accounting; --mode big), C08 (--guard), C20 (--pair), C18 (--threads).
 *
 * Each case i is an independent random history derived from (seed, i):
 * a pool of contexts, a manager, and a sequence of submit/flush calls (valid and
 * deliberately invalid). The call boundary is the recording point. */
#include "hashalgs.h"
#include <pthread.h>
#include <sys/mman.h>
#include <isal_crypto_api.h>
#include <multi_buffer.h>
#include <valgrind/memcheck.h>

enum { R_FAM, R_ISAL, R_LEGACY };
static const char *const route_name[] = { "fam", "isal", "legacy" };
enum { ST_FRESH, ST_IDLE, ST_COMPLETE, ST_INFLIGHT };

typedef struct {
        const halg_t *a; const hfam_t *f; int route;
        int inject_pct; int guard; int junk_mode;       /* 0:0x00 1:0xff 2:random */
        int maxlen_log2;
} hcfg_t;

typedef struct {
        uint64_t trace;
        uint64_t ops, submits, flushes, completes, rejects, reuses, idle_returns, max_inflight, bytes;
        uint64_t returned_by_other, returned_by_flush, restarts_midway, zero_len_segs;
        int viol, aborted;
} hres_t;

#define MAXSLOT 100
#define STRADDLE_HALF (1u << 20)
#define MAXLOG 400
typedef struct {
        uint8_t *ctx; int st, last_pending, id;
        uint8_t *msg; uint8_t *msg_base; uint8_t *msg_copy; size_t msglen, off; uint64_t total; int reject_in_flight;
        ref_hash_t rh; int had_reject; uintptr_t tag;
        gbuf_t segs[24]; int nsegs;
} slot_t;
typedef struct { int op, slot, flags, ret, rc, reject; uint32_t len; } logent_t;

typedef struct {
        const hcfg_t *cfg; rng_t r; hres_t *res;
        uint8_t *mgr; slot_t s[MAXSLOT]; int nslot, ninflight;
        logent_t log[MAXLOG]; int nlog;
        uint64_t case_seed; int any_reject;
        uint8_t *arena; size_t arena_used, arena_size;
        uint8_t *snap; size_t snap_size;
} hist_t;

static __thread char replay_buf[512];
static int g_jump;
static const char *prop_now(void) { return g_prop; }
static int P(const char *p) { return !strcmp(g_prop, p); }

static void fmt_log(hist_t *h, char *dst, size_t n)
{
        size_t o = 0;
        int start = h->nlog > 40 ? h->nlog - 40 : 0;
        for (int i = start; i < h->nlog && o + 48 < n; i++) {
                logent_t *e = &h->log[i];
                if (e->op == 0) o += (size_t) snprintf(dst + o, n - o, "S(c%d,f%d,l%u%s)->%d/%d ", e->slot, e->flags, e->len, e->reject ? ",bad" : "", e->ret, e->rc);
                else o += (size_t) snprintf(dst + o, n - o, "F->%d/%d ", e->ret, e->rc);
        }
}
static void viol(hist_t *h, const char *prop, const char *cls, const char *fmt, ...) __attribute__((format(printf, 4, 5)));
static void viol(hist_t *h, const char *prop, const char *cls, const char *fmt, ...)
{
        char msg[700], key[200], lg[2200], full[3000];
        va_list ap; va_start(ap, fmt); vsnprintf(msg, sizeof msg, fmt, ap); va_end(ap);
        h->res->viol++;
        if (strcmp(prop, prop_now())) { out_count("alarms_for_other_property", 1); return; }
        snprintf(key, sizeof key, "%s %s %s %s", cls, h->cfg->a->name, h->cfg->f->name, route_name[h->cfg->route]);
        fmt_log(h, lg, sizeof lg);
        snprintf(full, sizeof full, "%s | case_seed=%llu ops: %s", msg, (unsigned long long) h->case_seed, lg);
        out_viol(prop, key, replay_buf, "%s", full);
}

static void *arena_alloc(hist_t *h, size_t size, size_t align)
{
        size_t o = (h->arena_used + align - 1) & ~(align - 1);
        if (o + size > h->arena_size) out_err("arena exhausted");
        h->arena_used = o + size;
        return h->arena + o;
}
static void junk_fill(hist_t *h, void *p, size_t n, uint64_t salt)
{
        if (h->cfg->junk_mode == 3) { (void) VALGRIND_MAKE_MEM_UNDEFINED(p, n); return; }    /* memcheck tracks any use of it */
        if (h->cfg->junk_mode == 0) memset(p, 0x00, n);
        else if (h->cfg->junk_mode == 1) memset(p, 0xff, n);
        else { rng_t j; rng_seed(&j, mix64(h->case_seed ^ 0x6a756e6b, salt)); rng_fill(&j, p, n); }
}
#define CTX_I32(c, off) (*(int32_t *) ((c) + (off)))
static int slot_of(hist_t *h, void *ctx)
{
        for (int i = 0; i < h->nslot; i++) if (h->s[i].ctx == (uint8_t *) ctx) return i;
        return -1;
}
static uint32_t pick_len(hist_t *h)
{
        rng_t *r = &h->r;
        uint32_t B = (uint32_t) h->cfg->a->block;
        switch (rng_below(r, 12)) {
        case 0: return 0;
        case 1: return 1 + rng_below(r, 3);
        case 2: return B - 1 - rng_below(r, 18);        /* around the pad-length boundary */
        case 3: return B;
        case 4: return B + 1;
        case 5: return B * (1 + rng_below(r, 20)) + (rng_below(r, 3) - 1);
        case 6: return rng_below(r, 2 * B);
        case 7: return B * (1 + rng_below(r, 6));
        case 8: return rng_below(r, 1u << (6 + rng_below(r, (uint32_t) h->cfg->maxlen_log2 - 5)));
        case 9: return 2 * B - 1 - rng_below(r, 18);
        default: return rng_below(r, 20 * B);
        }
}
static void free_segs(slot_t *s)
{
        for (int i = 0; i < s->nsegs; i++) { gprot(&s->segs[i], 0); gfree(&s->segs[i]); }
        s->nsegs = 0;
}

/* one library call; returns 0 ok, 1 faulted (guard mode) */
static int do_submit(hist_t *h, int si, const void *buf, uint32_t len, int flags, void **ret, int *rc)
{
        const hcfg_t *c = h->cfg; slot_t *s = &h->s[si];
        *rc = 0; *ret = NULL;
        LABEL("%s %s %s submit flags=%d len=%u", c->a->name, c->f->name, route_name[c->route], flags, len);
        int faulted;
        if (c->route == R_FAM) faulted = GUARDED(*ret = c->f->submit(h->mgr, s->ctx, buf, len, flags));
        else if (c->route == R_LEGACY) faulted = GUARDED(*ret = c->a->l_submit(h->mgr, s->ctx, buf, len, flags));
        else faulted = GUARDED(*rc = c->a->i_submit(h->mgr, s->ctx, ret, buf, len, flags));
        cur_label[0] = 0;
        return faulted;
}
static int do_flush(hist_t *h, void **ret, int *rc)
{
        const hcfg_t *c = h->cfg;
        *rc = 0; *ret = NULL;
        LABEL("%s %s %s flush inflight=%d", c->a->name, c->f->name, route_name[c->route], h->ninflight);
        int faulted;
        if (c->route == R_FAM) faulted = GUARDED(*ret = c->f->flush(h->mgr));
        else if (c->route == R_LEGACY) faulted = GUARDED(*ret = c->a->l_flush(h->mgr));
        else faulted = GUARDED(*rc = c->a->i_flush(h->mgr, ret));
        cur_label[0] = 0;
        return faulted;
}
static void report_fault(hist_t *h, const char *what)
{
        char key[200];
        snprintf(key, sizeof key, "%s-fault %s %s %s", fault_last.is_write ? "write" : "read", what, h->cfg->a->name, h->cfg->f->name);
        h->res->viol++;
        if (P("C08")) {
                char lg[1500]; fmt_log(h, lg, sizeof lg);
                out_viol("C08", key, replay_buf, "%s at %p (pc %p) outside the supplied ranges or into a read-only input, during %s | case_seed=%llu ops: %s",
                         fault_last.is_write ? "write" : "read", fault_last.addr, fault_last.pc, what, (unsigned long long) h->case_seed, lg);
        } else {
                out_viol(prop_now(), key, replay_buf, "unexpected fault at %p during %s", fault_last.addr, what);
        }
}

/* model + oracles after a call that handed back `ret` (may be NULL) */
static void trace(hist_t *h, uint64_t v) { h->res->trace = mix64(h->res->trace, v); }

static int handle_return(hist_t *h, void *ret, int by_flush, int submitter)
{
        const halg_t *a = h->cfg->a;
        if (!ret) return 0;
        int ri = slot_of(h, ret);
        if (ri < 0) { viol(h, "C06", "phantom-return", "call handed back %p which is not a context of this manager", ret); return -1; }
        slot_t *s = &h->s[ri];
        int st = CTX_I32(s->ctx, a->off_status), er = CTX_I32(s->ctx, a->off_error);
        trace(h, (uint64_t) ri << 32 | (uint32_t) st << 8 | (uint32_t) (er & 0xff));
        if (s->st != ST_INFLIGHT) { viol(h, "C06", "duplicate-return", "context c%d handed back while the model does not have it in flight (model state %d)", ri, s->st); return -1; }
        s->st = -1; h->ninflight--;
        if (by_flush) h->res->returned_by_flush++; else if (submitter != ri) h->res->returned_by_other++;
        /* every context in flight got there through an accepted submit: whoever hands it back, its error field must say so */
        /* (a rejected submit aimed at this very context while it was in flight has written its code there: the documented channel of that call) */
        int stale_ok = s->reject_in_flight; s->reject_in_flight = 0;
        if (er != 0 && !stale_ok) viol(h, P("C11") ? "C11" : "C06", "valid-job-returned-with-error", "context c%d (accepted job) was handed back %s with error %d", ri, by_flush ? "by flush" : submitter == ri ? "by its own submit" : "by another context's submit", er);
        if (st & ISAL_HASH_CTX_STS_PROCESSING) viol(h, "C06", "returned-processing", "context c%d handed back with the PROCESSING bit set (status %d)", ri, st);
        if (s->last_pending) {
                if (st != ISAL_HASH_CTX_STS_COMPLETE) viol(h, "C06", "not-complete-after-last", "context c%d handed back after LAST with status %d", ri, st);
                s->st = ST_COMPLETE;
                h->res->completes++;
                uint8_t got[64] = { 0 }, exp[64] = { 0 }; ref_hash_t t = s->rh;
                ref_hash_final(&t, exp);
                halg_digest_bytes(a, s->ctx, got);
                for (int i = 0; i < a->dbytes; i += 8) { uint64_t w; memcpy(&w, got + i, 8); trace(h, w); }
                if (memcmp(got, exp, (size_t) a->dbytes)) {
                        char g[129], e[129]; hex(g, got, (size_t) a->dbytes); hex(e, exp, (size_t) a->dbytes);
                        const char *p = (P("C11") && h->any_reject) ? "C11" : P("C15") ? "C15" : P("C08") ? "C08" : P("C20") ? "C20" : P("C18") ? "C18" : "C01";
                        if (P("C08") || P("C20") || P("C18")) { out_count("digest_mismatch_seen_by_other_check", 1); }
                        else viol(h, p, "digest-mismatch", "c%d total=%llu digest %s expected %s", ri, (unsigned long long) s->total, g, e);
                }
                feat(mix64(0xd16e57, mix64((uint64_t) (s->total % (2 * (uint64_t) a->block)), mix64((uint64_t) h->ninflight, (uint64_t) by_flush << 1 | (submitter == ri)))));
        } else {
                if (st != ISAL_HASH_CTX_STS_IDLE) viol(h, "C06", "not-idle-after-update", "context c%d handed back after FIRST/UPDATE with status %d", ri, st);
                s->st = ST_IDLE;
                h->res->idle_returns++;
        }
        if (*(uint64_t *) (s->ctx + a->off_total) != s->total)
                viol(h, "C15", "total-length", "c%d reports total_length %llu, segments sum to %llu", ri, (unsigned long long) *(uint64_t *) (s->ctx + a->off_total), (unsigned long long) s->total);
        if (*(uintptr_t *) (s->ctx + a->off_user) != s->tag) viol(h, "C06", "user-data-changed", "user_data of c%d changed", ri);
        if (s->msg && memcmp(s->msg, s->msg_copy, s->msglen)) viol(h, "C06", "input-modified", "input buffer of c%d was modified", ri);
        if (h->cfg->guard) free_segs(s);
        return 0;
}

static void check_mgr_invariants(hist_t *h)
{
        const halg_t *a = h->cfg->a;
        if (!strcmp(h->cfg->f->name, "base") || !strcmp(h->cfg->f->name, "sb_sse4")) return;
        uint32_t n = *(uint32_t *) (h->mgr + a->off_num_inuse);
        if ((int) n != h->ninflight) viol(h, "C06", "lanes-inuse-count", "manager num_lanes_inuse=%u but %d contexts are in flight", n, h->ninflight);
        int owners = 0;
        for (int l = 0; l < a->max_lanes; l++) {
                void *j = *(void **) (h->mgr + a->off_ldata + (size_t) l * a->ldata_stride);
                if (!j) continue;
                owners++;
                int si = slot_of(h, j);
                if (si < 0 || h->s[si].st != ST_INFLIGHT) viol(h, "C06", "lane-owner", "lane %d holds %p which is not an in-flight context", l, j);
        }
        if (owners != h->ninflight) viol(h, "C06", "lane-owner-count", "%d lanes are occupied but %d contexts are in flight", owners, h->ninflight);
}

static int expected_isal_rc(int err)
{
        switch (err) {
        case ISAL_HASH_CTX_ERROR_INVALID_FLAGS: return ISAL_CRYPTO_ERR_INVALID_FLAGS;
        case ISAL_HASH_CTX_ERROR_ALREADY_PROCESSING: return ISAL_CRYPTO_ERR_ALREADY_PROCESSING;
        case ISAL_HASH_CTX_ERROR_ALREADY_COMPLETED: return ISAL_CRYPTO_ERR_ALREADY_COMPLETED;
        }
        return 0;
}

static void take_snapshot(hist_t *h)
{
        const halg_t *a = h->cfg->a;
        memcpy(h->snap, h->mgr, a->mgr_size);
        for (int i = 0; i < h->nslot; i++) memcpy(h->snap + a->mgr_size + (size_t) i * a->ctx_size, h->s[i].ctx, a->ctx_size);
}
static void compare_snapshot(hist_t *h, int rejected)
{
        const halg_t *a = h->cfg->a;
        if (memcmp(h->snap, h->mgr, a->mgr_size)) {
                size_t o = 0; while (h->snap[o] == h->mgr[o]) o++;
                viol(h, "C11", "reject-changed-manager", "rejected submit on c%d changed manager byte %zu", rejected, o);
        }
        for (int i = 0; i < h->nslot; i++) {
                uint8_t *old = h->snap + a->mgr_size + (size_t) i * a->ctx_size, *now = h->s[i].ctx;
                for (size_t o = 0; o < a->ctx_size; o++) {
                        if (old[o] == now[o]) continue;
                        if (i == rejected && o >= a->off_error && o < a->off_error + 4) continue;
                        viol(h, "C11", i == rejected ? "reject-changed-own-state" : "reject-changed-other-ctx",
                             "rejected submit on c%d changed byte %zu of context c%d (status@%zu error@%zu total@%zu pbl@%zu)", rejected, o, i,
                             a->off_status, a->off_error, a->off_total, a->off_pbl);
                        break;
                }
        }
        for (int i = 0; i < h->nslot; i++) if (h->s[i].msg && memcmp(h->s[i].msg, h->s[i].msg_copy, h->s[i].msglen)) viol(h, "C11", "reject-changed-buffer", "rejected submit changed a data buffer (c%d)", i);
}

/* after every call: what an application sees through the public accessor macros must agree with the job model for every context */
static void macro_sweep(hist_t *h)
{
        const halg_t *a = h->cfg->a;
        for (int i = 0; i < h->nslot; i++) {
                slot_t *s = &h->s[i];
                int cm = a->ctx_view(s->ctx, 0), pr = a->ctx_view(s->ctx, 1);
                int want_c = s->st == ST_COMPLETE || s->st == ST_FRESH, want_p = s->st == ST_INFLIGHT;
                if (cm != want_c || pr != want_p) {
                        viol(h, "C06", "accessor-macros", "context c%d: isal_hash_ctx_complete() = %d, isal_hash_ctx_processing() = %d, but the job model has it %s (status word %d)", i, cm, pr,
                             s->st == ST_INFLIGHT ? "in flight" : s->st == ST_IDLE ? "idle between segments" : s->st == ST_COMPLETE ? "complete" : "fresh", a->ctx_view(s->ctx, 2));
                        return;
                }
        }
        out_count("accessor_macro_sweeps", 1);
}
static int inject_reject(hist_t *h)
{
        const hcfg_t *c = h->cfg; const halg_t *a = c->a; rng_t *r = &h->r;
        int si = (int) rng_below(r, (uint32_t) h->nslot);
        slot_t *s = &h->s[si];
        int kind = (int) rng_below(r, 3), flags, exp_lo, exp_set = 0;
        static uint8_t dummy[256];
        /* choose an invalid call for the state the context is in */
        if (kind == 0) {        /* flags outside 0..3 */
                static const int bad[] = { 4, 5, 6, 7, 8, 0x10, 0x13, 0x80, 0x103, -1, 0x40000000 };
                flags = bad[rng_below(r, sizeof bad / sizeof bad[0])];
                exp_set |= 1;
                /* (several reasons may apply; any matching code is accepted) */
                if (s->st == ST_INFLIGHT) exp_set |= 2;
                if ((s->st == ST_FRESH || s->st == ST_COMPLETE) && !(flags & 1)) exp_set |= 4;
        } else if (s->st == ST_INFLIGHT) {
                flags = (int) rng_below(r, 4); exp_set |= 2;
        } else if (s->st == ST_FRESH || s->st == ST_COMPLETE) {
                flags = rng_below(r, 2) ? ISAL_HASH_UPDATE : ISAL_HASH_LAST; exp_set |= 4;
        } else return 0;
        (void) exp_lo;
        uint32_t len = rng_below(r, 3) ? rng_below(r, 200) : 0;
        take_snapshot(h);
        void *ret; int rc;
        logent_t *e = &h->log[h->nlog < MAXLOG ? h->nlog++ : MAXLOG - 1];
        *e = (logent_t) { 0, si, flags, -2, 0, 1, len };
        int inflight_before = s->st == ST_INFLIGHT;
        /* out-of-range flags are refused before the buffer is looked at: a fifth of those calls carry no buffer at all */
        const void *rbuf_ = (kind == 0 && rng_below(r, 5) == 0) ? NULL : dummy;
        if (!rbuf_) out_count("rejects_invalid_flags_null_buffer", 1);
        if (do_submit(h, si, rbuf_, len, flags, &ret, &rc)) { report_fault(h, "rejected submit"); return -1; }
        h->res->ops++; h->res->rejects++; h->any_reject = 1; s->had_reject = 1;
        if (inflight_before) s->reject_in_flight = 1;
        e->ret = ret ? slot_of(h, ret) : -1; e->rc = rc;
        int er = CTX_I32(s->ctx, a->off_error);
        trace(h, 0xbad00000u | (uint32_t) (er & 0xff) << 8 | (uint32_t) (rc & 0xff));
        feat(mix64(0x7e1ec7, mix64((uint64_t) exp_set, mix64((uint64_t) h->ninflight, (uint64_t) s->st))));
        out_count(exp_set & 1 ? "rejects_invalid_flags" : exp_set & 2 ? "rejects_already_processing" : "rejects_already_completed", 1);
        if (!rbuf_ && c->route == R_ISAL && ret == NULL && rc == ISAL_CRYPTO_ERR_NULL_SRC) {
                /* two argument faults in one call: the isal_ wrapper may report the missing buffer instead (its documented code, C16); nothing may have changed */
                out_count("rejects_double_fault_reported_as_null_src", 1);
                compare_snapshot(h, si);
                return 0;
        }
        if (ret != s->ctx) { viol(h, "C11", "reject-not-handed-back", "invalid submit (flags %d) on c%d in state %d returned %p instead of the same context", flags, si, s->st, ret); return -1; }
        int ok = ((exp_set & 1) && er == ISAL_HASH_CTX_ERROR_INVALID_FLAGS) || ((exp_set & 2) && er == ISAL_HASH_CTX_ERROR_ALREADY_PROCESSING) ||
                 ((exp_set & 4) && er == ISAL_HASH_CTX_ERROR_ALREADY_COMPLETED);
        if (!ok) viol(h, "C11", "reject-wrong-error", "invalid submit (flags %d) on c%d in state %d set error %d (acceptable set mask %d)", flags, si, s->st, er, exp_set);
        if (c->route == R_ISAL && rc != expected_isal_rc(er)) viol(h, "C11", "reject-wrong-rc", "isal submit returned %d for context error %d", rc, er);
        if (c->route == R_ISAL && rc == 0) viol(h, "C11", "reject-rc-zero", "invalid isal submit returned 0");
        compare_snapshot(h, si);
        (void) inflight_before;
        return 0;
}

static int valid_submit(hist_t *h, int si, int start_new)
{
        const hcfg_t *c = h->cfg; const halg_t *a = c->a; rng_t *r = &h->r;
        slot_t *s = &h->s[si];
        int flags;
        uint32_t len;
        if (start_new) {
                if (s->st == ST_IDLE) h->res->restarts_midway++;
                if (s->st == ST_COMPLETE) h->res->reuses++;
                free(s->msg_base); free(s->msg_copy);
                uint32_t total = pick_len(h);
                if (rng_below(r, 20) == 0) total += (uint32_t) rng_below(r, 40) * (uint32_t) a->block;
                s->msglen = total; s->off = 0; s->total = 0;
                unsigned mis = rng_below(r, 64);
                s->msg_base = NULL; s->msg = NULL; s->msg_copy = malloc(total + 1);
                if (total > 1 && total < STRADDLE_HALF && rng_below(r, 5) == 0) {
                        /* the message lies across a 4 GiB-aligned address (one private region per context slot and thread) */
                        static __thread uint8_t *pool[MAXSLOT]; static __thread int tried[MAXSLOT];
                        if (!tried[si]) { tried[si] = 1; pool[si] = straddle_map(STRADDLE_HALF); }
                        if (pool[si]) {
                                s->msg = pool[si] + STRADDLE_HALF - 1 - rng_below(r, total - 1); out_count("messages_across_4GiB_boundary", 1);
                                if (rng_below(r, 4) == 0) { s->msg = pool[si] + STRADDLE_HALF; out_count("messages_at_4GiB_aligned_address", 1); }     /* low 32 address bits all zero */
                        }
                }
                if (!s->msg) { s->msg_base = malloc(total + 64 + 1); s->msg = s->msg_base + mis; }
                /* content derived from the case seed only, so paired runs see identical inputs */
                rng_t d; rng_seed(&d, mix64(h->case_seed, 0xda7a0000 + (uint64_t) h->res->submits));
                rng_fill(&d, s->msg, total);
                if (rng_below(r, 6) == 0) memset(s->msg, (int) rng_below(r, 256), total);  /* low entropy */
                memcpy(s->msg_copy, s->msg, total);
                ref_hash_init(&s->rh, a->ref_alg);
                /* segment */
                uint32_t seg = rng_below(r, 3) == 0 ? total : rng_below(r, total + 1);
                if (rng_below(r, 8) == 0) seg = 0;
                len = seg;
                flags = (seg == total && rng_below(r, 2)) ? ISAL_HASH_ENTIRE : ISAL_HASH_FIRST;
        } else {
                uint32_t rem = (uint32_t) (s->msglen - s->off);
                if (g_jump && rng_below(r, 100) < 30) {
                        /* C15 fast path: while the context is idle, move its documented running total (and the model's) forward by a
                         * whole number of blocks so that the following segments cross 2^29 / 2^32 / 2^32+2^29 at every residue;
                         * the bytes hashed are unchanged, only the length that must end up in the padding differs */
                        static const uint64_t thr[3] = { 1ull << 29, 1ull << 32, (1ull << 32) + (1ull << 29) };
                        uint64_t T = thr[rng_below(r, 3)], B = (uint64_t) a->block;
                        if (s->total + 4 * B < T) {
                                uint64_t D = ((T - s->total) / B - rng_below(r, 3)) * B;
                                *(uint64_t *) (s->ctx + a->off_total) += D; s->total += D; s->rh.total += D;
                                out_count("length_jumps", 1);
                        }
                }
                /* exactly complete / underfill / overshoot the carried partial block */
                uint32_t pbl = (uint32_t) (s->total % (uint64_t) a->block), need = (uint32_t) a->block - pbl;
                switch (rng_below(r, 6)) {
                case 0: len = need; break;
                case 1: len = need > 1 ? need - 1 : 0; break;
                case 2: len = need + 1; break;
                case 3: len = 0; break;
                default: len = rng_below(r, rem + 1); break;
                }
                if (len > rem) len = rem;
                if (rng_below(r, 3) == 0) len = rem;
                flags = (len == rem && rng_below(r, 3)) ? ISAL_HASH_LAST : ISAL_HASH_UPDATE;
        }
        if (len == 0) h->res->zero_len_segs++;
        const uint8_t *buf;
        if (c->guard) {
                if (s->nsegs >= 24) return 0;
                if (len == 0) buf = (flags == ISAL_HASH_FIRST || flags == ISAL_HASH_LAST) && rng_below(r, 2) ? NULL : gnone_ptr();
                else {
                        gbuf_t *g = &s->segs[s->nsegs++];
                        int pl = (int) rng_below(r, 3);
                        uint8_t *p = galloc(g, len, 1, pl, rng_below(r, 64));
                        memcpy(p, s->msg + s->off, len);
                        gprot(g, 1);
                        buf = p;
                }
        } else {
                buf = s->msg + s->off;
                if (len == 0 && (flags == ISAL_HASH_FIRST || flags == ISAL_HASH_LAST) && rng_below(r, 4) == 0) buf = NULL;
        }
        /* model: accept */
        int prev = s->st;
        s->st = ST_INFLIGHT; s->last_pending = (flags & ISAL_HASH_LAST) != 0; h->ninflight++;
        if ((uint64_t) h->ninflight > h->res->max_inflight) h->res->max_inflight = (uint64_t) h->ninflight;
        ref_hash_update(&s->rh, s->msg + s->off, len);
        s->off += len; s->total += len; h->res->bytes += len;
        void *ret; int rc;
        logent_t *e = &h->log[h->nlog < MAXLOG ? h->nlog++ : MAXLOG - 1];
        *e = (logent_t) { 0, si, flags, -2, 0, 0, len };
        if (do_submit(h, si, buf, len, flags, &ret, &rc)) { report_fault(h, "submit"); return -1; }
        h->res->ops++; h->res->submits++;
        e->ret = ret ? slot_of(h, ret) : -1; e->rc = rc;
        trace(h, 0x5b000000u | (uint32_t) (rc & 0xffff));
        feat(mix64(0x5b, mix64((uint64_t) flags, mix64((uint64_t) (h->ninflight - 1), mix64((uint64_t) (len == 0 ? 0 : len < (uint32_t) a->block ? 1 : 2), mix64((uint64_t) prev, (uint64_t) (ret == NULL ? 0 : ret == s->ctx ? 1 : 2)))))));
        if (rc != 0) {
                viol(h, h->any_reject ? "C11" : "C06", h->any_reject ? "valid-call-reported-failed" : "valid-call-failed",
                     "valid isal submit (c%d flags %d len %u) returned %d%s", si, flags, len, rc, h->any_reject ? " after an earlier rejected submit in this history" : "");
        }
        if (ret == s->ctx && CTX_I32(s->ctx, a->off_error) != 0)
                viol(h, "C06", "valid-submit-rejected", "valid submit (c%d flags %d len %u, state %d) was handed back with error %d", si, flags, len, prev, CTX_I32(s->ctx, a->off_error));
        if (handle_return(h, ret, 0, si) < 0) return -1;
        if (h->ninflight > c->f->lanes) viol(h, "C06", "too-many-held", "manager holds %d contexts, family has %d lanes", h->ninflight, c->f->lanes);
        /* a context in flight must carry the PROCESSING bit */
        for (int i = 0; i < h->nslot; i++)
                if (h->s[i].st == ST_INFLIGHT && !(CTX_I32(h->s[i].ctx, a->off_status) & ISAL_HASH_CTX_STS_PROCESSING))
                        viol(h, "C06", "inflight-not-processing", "c%d is held by the manager but lacks the PROCESSING bit", i);
        check_mgr_invariants(h);
        return 0;
}

static int one_flush(hist_t *h, int draining)
{
        void *ret; int rc;
        logent_t *e = &h->log[h->nlog < MAXLOG ? h->nlog++ : MAXLOG - 1];
        *e = (logent_t) { 1, -1, 0, -2, 0, 0, 0 };
        int before = h->ninflight;
        if (do_flush(h, &ret, &rc)) { report_fault(h, "flush"); return -1; }
        h->res->ops++; h->res->flushes++;
        e->ret = ret ? slot_of(h, ret) : -1; e->rc = rc;
        trace(h, 0xf1000000u | (uint32_t) (rc & 0xffff));
        feat(mix64(0xf1, mix64((uint64_t) before, (uint64_t) draining)));
        if (rc != 0) viol(h, h->any_reject ? "C11" : "C06", h->any_reject ? "valid-call-reported-failed" : "valid-call-failed", "isal flush returned %d", rc);
        if (!ret && before > 0) { viol(h, "C06", "flush-null-while-holding", "flush returned no context while %d are in flight", before); return -1; }
        if (ret && before == 0) { viol(h, "C06", "flush-return-while-empty", "flush returned a context while none is in flight"); return -1; }
        if (handle_return(h, ret, 1, -1) < 0) return -1;
        check_mgr_invariants(h);
        return 0;
}

static void run_history(const hcfg_t *cfg, uint64_t case_seed, hres_t *res, uint8_t *arena, size_t arena_size)
{
        hist_t *h = calloc(1, sizeof *h);
        const halg_t *a = cfg->a;
        h->cfg = cfg; h->res = res; h->case_seed = case_seed; h->arena = arena; h->arena_size = arena_size;
        rng_seed(&h->r, case_seed);
        rng_t *r = &h->r;
        int L = cfg->f->lanes > 16 ? 16 : cfg->f->lanes;
        h->nslot = 1 + (int) rng_below(r, (uint32_t) (rng_below(r, 3) ? L + 2 : 3 * L));
        if (h->nslot > MAXSLOT) h->nslot = MAXSLOT;
        h->mgr = arena_alloc(h, a->mgr_size, 64);
        junk_fill(h, h->mgr, a->mgr_size, 1);
        /* in a third of the histories one context lives at a 4 GiB-aligned address (a pointer whose low 32 bits are all zero) */
        static __thread uint8_t *cpool; static __thread int cpool_tried;
        if (!cpool_tried) { cpool_tried = 1; cpool = a->ctx_size < 65536 ? straddle_map(65536) : NULL; }
        int aligned_slot = cpool && rng_below(r, 3) == 0 ? (int) rng_below(r, (uint32_t) h->nslot) : -1;
        for (int i = 0; i < h->nslot; i++) {
                slot_t *s = &h->s[i];
                s->ctx = arena_alloc(h, a->ctx_size, 64);
                if (i == aligned_slot) { s->ctx = cpool + 65536; out_count("contexts_at_4GiB_aligned_address", 1); }
                junk_fill(h, s->ctx, a->ctx_size, 100 + (uint64_t) i);
                s->id = i; s->st = ST_FRESH;
                a->ctx_init(s->ctx);
                s->tag = (uintptr_t) (0xabc000 + i);
                *(uintptr_t *) (s->ctx + a->off_user) = s->tag;
        }
        h->snap_size = a->mgr_size + (size_t) h->nslot * a->ctx_size;
        h->snap = malloc(h->snap_size);
        LABEL("%s %s %s mgr_init", a->name, cfg->f->name, route_name[cfg->route]);
        int irc = 0;
        if (cfg->route == R_FAM) cfg->f->init(h->mgr);
        else if (cfg->route == R_LEGACY) a->l_init(h->mgr);
        else irc = a->i_init(h->mgr);
        cur_label[0] = 0;
        if (irc) viol(h, "C06", "init-failed", "isal mgr init returned %d", irc);
        int nops = 10 + (int) rng_below(r, 70);
        if (rng_below(r, 60) == 0) nops = 1500 + (int) rng_below(r, 2500);     /* occasionally a long life of one manager and its contexts */
        int bad = 0;
        for (int step = 0; step < nops && !bad; step++) {
                macro_sweep(h);
                uint32_t w = rng_below(r, 100);
                if (h->ninflight > 0 && rng_below(r, 150) == 0) {
                        /* the application gives up on the jobs in flight: the manager is initialised again and every abandoned context is
                         * re-initialised with isal_hash_ctx_init (all the API offers); they must be usable for new messages like fresh ones */
                        LABEL("%s %s %s mgr re-init with %d jobs in flight", a->name, cfg->f->name, route_name[cfg->route], h->ninflight);
                        int rrc = 0;
                        if (cfg->route == R_FAM) cfg->f->init(h->mgr); else if (cfg->route == R_LEGACY) a->l_init(h->mgr); else rrc = a->i_init(h->mgr);
                        cur_label[0] = 0;
                        if (rrc) viol(h, "C06", "init-failed", "isal mgr init returned %d", rrc);
                        for (int i = 0; i < h->nslot; i++) if (h->s[i].st == ST_INFLIGHT) {
                                a->ctx_init(h->s[i].ctx); *(uintptr_t *) (h->s[i].ctx + a->off_user) = h->s[i].tag;
                                h->s[i].st = ST_FRESH; h->s[i].reject_in_flight = 0; free_segs(&h->s[i]);
                        }
                        h->ninflight = 0;
                        out_count("manager_reinits_with_jobs_in_flight", 1);
                        continue;
                }
                if (w < (uint32_t) cfg->inject_pct) { if (inject_reject(h) < 0) bad = 1; continue; }
                w = rng_below(r, 100);
                if (w < 12) { if (one_flush(h, 0) < 0) bad = 1; continue; }
                /* pick a context that can take a valid submit */
                int cand[MAXSLOT], nc = 0;
                for (int i = 0; i < h->nslot; i++) if (h->s[i].st != ST_INFLIGHT) cand[nc++] = i;
                if (!nc) { if (one_flush(h, 0) < 0) bad = 1; continue; }
                int si = cand[rng_below(r, (uint32_t) nc)];
                slot_t *s = &h->s[si];
                int start_new = (s->st != ST_IDLE) || rng_below(r, 25) == 0;
                if (valid_submit(h, si, start_new) < 0) bad = 1;
        }
        /* finish every idle message with LAST (half of the time), then drain */
        if (!bad && rng_below(r, 2)) {
                for (int i = 0; i < h->nslot && !bad; i++) if (h->s[i].st == ST_IDLE) if (valid_submit(h, i, 0) < 0) bad = 1;
        }
        int guard = h->ninflight + 2;
        while (!bad && h->ninflight > 0) {
                if (one_flush(h, 1) < 0) { bad = 1; break; }
                if (--guard < 0) { viol(h, "C06", "drain-too-long", "draining needed more flush calls than contexts in flight"); break; }
        }
        if (!bad) {
                void *ret; int rc;
                if (do_flush(h, &ret, &rc)) report_fault(h, "flush");
                else if (ret) viol(h, "C06", "flush-return-while-empty", "flush on a drained manager returned a context");
                h->res->flushes++;
        }
        res->aborted += bad;
        static int sampled;
        if (!__atomic_exchange_n(&sampled, 1, __ATOMIC_RELAXED)) {     /* evidence: the first history of this worker, written out */
                clog_on = 1;
                clog_title("%s %s via %s: history with %d contexts on a %d-lane manager, case_seed=%llu; every returned context was checked against the job model and its digest against the reference",
                           a->name, cfg->f->name, route_name[cfg->route], h->nslot, cfg->f->lanes, (unsigned long long) case_seed);
                for (int i = 0; i < h->nlog; i++) {
                        logent_t *e = &h->log[i];
                        if (e->op == 0) clog_event("submit ctx%d flags=%d len=%u%s -> returned %s%d rc=%d", e->slot, e->flags, e->len, e->reject ? " (injected invalid call)" : "", e->ret < 0 ? "none " : "ctx", e->ret, e->rc);
                        else clog_event("flush -> returned %s%d rc=%d", e->ret < 0 ? "none " : "ctx", e->ret, e->rc);
                }
                clog_on = 0;
        }
        for (int i = 0; i < h->nslot; i++) { free_segs(&h->s[i]); free(h->s[i].msg_base); free(h->s[i].msg_copy); }
        free(h->snap);
        free(h);
}

/* ---------------- forced dispatch ---------------- */
static disp_t disp[5][3];
static void force_family(const halg_t *a, const hfam_t *f)
{
        int ai = (int) (a - halgs);
        if (g_noarch) return;   /* the entry points are plain C functions that call the base code */
        if (vcpu_set(f->vcpu)) out_err("unknown vcpu %s", f->vcpu);
        for (int k = 0; k < 3; k++) {
                if (!disp[ai][k].slot && disp_bind(&disp[ai][k], a->entry[k])) out_err("cannot locate dispatch slot of %s entry %d", a->name, k);
                disp_rearm(&disp[ai][k]);
        }
        /* resolve now, on scratch objects, and verify the binding */
        uint8_t *m = aligned_alloc(64, (a->mgr_size + 63) & ~(size_t) 63), *c = aligned_alloc(64, (a->ctx_size + 63) & ~(size_t) 63);
        memset(m, 0, a->mgr_size); memset(c, 0, a->ctx_size);
        uint64_t before = isal_verif_vcpu.n_cpuid;
        ((h_init_f) a->entry[0])(m);
        a->ctx_init(c);
        ((h_submit_f) a->entry[1])(m, c, "", 0, ISAL_HASH_ENTIRE);
        while (((h_flush_f) a->entry[2])(m)) ;
        free(m); free(c);
        if (isal_verif_vcpu.n_cpuid == before) out_err("virtual CPUID hook was not reached by the %s resolvers (library built without ISAL_CRYPTO_VERIF?)", a->name);
        void *want[3] = { (void *) f->init, (void *) f->submit, (void *) f->flush };
        for (int k = 0; k < 3; k++)
                if (disp_target(&disp[ai][k]) != want[k])
                        out_err("forcing %s to family %s failed for entry %d (virtual cpu %s): dispatcher bound something else", a->name, f->name, k, f->vcpu);
}

/* ---------------- big mode (C15) ---------------- */
int hashmb_big(int argc, char **argv);

struct targ { hcfg_t cfg; uint64_t from, count; uint64_t *traces; hres_t res; };
static void *thread_main(void *p)
{
        struct targ *t = p;
        size_t asz = 4u << 20;
        uint8_t *arena = aligned_alloc(4096, asz);
        for (uint64_t i = 0; i < t->count; i++) {
                hres_t r; memset(&r, 0, sizeof r);
                uint64_t cs = mix64(g_seed, t->from + i);
                snprintf(replay_buf, sizeof replay_buf, "{\"engine\":\"hashmb\",\"alg\":\"%s\",\"fam\":\"%s\",\"route\":\"%s\",\"seed\":%llu,\"case\":%llu,\"inject\":%d,\"guard\":%d}",
                         t->cfg.a->name, t->cfg.f->name, route_name[t->cfg.route], (unsigned long long) g_seed, (unsigned long long) (t->from + i), t->cfg.inject_pct, t->cfg.guard);
                snprintf(cur_replay, sizeof cur_replay, "%s", replay_buf);
                hist_t dummy; (void) dummy;
                run_history(&t->cfg, cs, &r, arena, asz);
                if (t->traces) t->traces[i] = r.trace;
                t->res.ops += r.ops; t->res.submits += r.submits; t->res.flushes += r.flushes; t->res.completes += r.completes;
                t->res.rejects += r.rejects; t->res.reuses += r.reuses; t->res.idle_returns += r.idle_returns; t->res.bytes += r.bytes;
                t->res.returned_by_other += r.returned_by_other; t->res.returned_by_flush += r.returned_by_flush;
                t->res.restarts_midway += r.restarts_midway; t->res.zero_len_segs += r.zero_len_segs; t->res.aborted += r.aborted;
                if (r.max_inflight > t->res.max_inflight) t->res.max_inflight = r.max_inflight;
                t->res.viol += r.viol;
        }
        free(arena);
        return NULL;
}
static void emit_res(const hcfg_t *c, const hres_t *r, uint64_t histories)
{
        char n[96];
#define C(field) snprintf(n, sizeof n, #field); out_count(n, r->field)
        out_count("histories", histories);
        C(ops); C(submits); C(flushes); C(completes); C(rejects); C(reuses); C(idle_returns); C(bytes);
        C(returned_by_other); C(returned_by_flush); C(restarts_midway); C(zero_len_segs);
        out_count("aborted_histories", (uint64_t) r->aborted);
        snprintf(n, sizeof n, "completes_%s_%s", c->a->name, c->f->name); out_count(n, r->completes);
        snprintf(n, sizeof n, "max_inflight_%s_%s", c->a->name, c->f->name); out_max(n, r->max_inflight);
}

int main(int argc, char **argv)
{
        out_init(argc, argv);
        if (ref_selfcheck()) out_err("reference oracle self-check failed");
        if (!strcmp(arg_str("--mode", "hist"), "big")) return hashmb_big(argc, argv);
        const char *algs = arg_str("--alg", "all"), *fams = arg_str("--fam", "all"), *routes = arg_str("--route", "fam");
        int inject = (int) arg_int("--inject", 8), guard = (int) arg_int("--guard", 0), pair = (int) arg_int("--pair", 0);
        int threads = (int) arg_int("--threads", 0);
        g_jump = (int) arg_int("--jump", 0);
        int sampled = 0;
        for (int ai = 0; ai < 5; ai++) {
                const halg_t *a = &halgs[ai];
                if (strcmp(algs, "all") && !strstr(algs, a->name)) continue;
                if (strcmp(algs, "all")) { /* exact token match */
                        char t[64]; snprintf(t, sizeof t, ",%s,", algs); char w[32]; snprintf(w, sizeof w, ",%s,", a->name);
                        if (!strstr(t, w)) continue;
                }
                for (int fi = 0; fi < a->nfam; fi++) {
                        const hfam_t *f = &a->fam[fi];
                        if (strcmp(fams, "all")) { char t[128]; snprintf(t, sizeof t, ",%s,", fams); char w[32]; snprintf(w, sizeof w, ",%s,", f->name); if (!strstr(t, w)) continue; }
                        for (int rt = 0; rt < 3; rt++) {
                                if (!strstr(routes, route_name[rt])) continue;
                                if (rt != R_FAM) force_family(a, f);
                                hcfg_t cfg = { a, f, rt, inject, guard, 2, 13 };
                                if (threads > 0) {
                                        /* C18: the same per-thread histories alone, then concurrently on private objects */
                                        uint64_t per = g_count;
                                        struct targ *T = calloc((size_t) threads, sizeof *T);
                                        uint64_t **alone = calloc((size_t) threads, sizeof *alone);
                                        for (int t = 0; t < threads; t++) {
                                                T[t].cfg = cfg; T[t].from = g_from + (uint64_t) t * per; T[t].count = per;
                                                T[t].traces = alone[t] = calloc(per, 8);
                                                thread_main(&T[t]);
                                        }
                                        pthread_t *th = calloc((size_t) threads, sizeof *th);
                                        uint64_t **conc = calloc((size_t) threads, sizeof *conc);
                                        for (int t = 0; t < threads; t++) { T[t].traces = conc[t] = calloc(per, 8); memset(&T[t].res, 0, sizeof T[t].res); }
                                        for (int t = 0; t < threads; t++) pthread_create(&th[t], NULL, thread_main, &T[t]);
                                        for (int t = 0; t < threads; t++) pthread_join(th[t], NULL);
                                        for (int t = 0; t < threads; t++) {
                                                for (uint64_t i = 0; i < per; i++)
                                                        if (alone[t][i] != conc[t][i]) {
                                                                char key[160]; snprintf(key, sizeof key, "thread-interference hash %s %s %s", a->name, f->name, route_name[rt]);
                                                                out_viol("C18", key, NULL, "history case %llu gave a different observable trace when run concurrently with %d other threads on private objects",
                                                                         (unsigned long long) (T[t].from + i), threads - 1);
                                                        }
                                                emit_res(&cfg, &T[t].res, per);
                                                free(alone[t]); free(conc[t]);
                                        }
                                        out_count("concurrent_histories_compared", (uint64_t) threads * per);
                                        free(T); free(alone); free(th); free(conc);
                                        continue;
                                }
                                struct targ T; memset(&T, 0, sizeof T);
                                T.cfg = cfg; T.from = g_from; T.count = g_count;
                                uint64_t *tr[3] = { 0, 0, 0 };
                                int npat = pair ? 3 : 1;
                                for (int p = 0; p < npat; p++) {
                                        T.cfg.junk_mode = pair ? p : (arg_int("--uninit", 0) ? 3 : 2);
                                        T.traces = tr[p] = calloc(g_count, 8);
                                        memset(&T.res, 0, sizeof T.res);
                                        thread_main(&T);
                                        if (p == 0) emit_res(&cfg, &T.res, g_count);
                                }
                                if (pair) {
                                        for (uint64_t i = 0; i < g_count; i++)
                                                if (tr[0][i] != tr[1][i] || tr[0][i] != tr[2][i]) {
                                                        char key[160]; snprintf(key, sizeof key, "hidden-input hash %s %s %s", a->name, f->name, route_name[rt]);
                                                        snprintf(replay_buf, sizeof replay_buf, "{\"engine\":\"hashmb\",\"alg\":\"%s\",\"fam\":\"%s\",\"route\":\"%s\",\"seed\":%llu,\"case\":%llu,\"inject\":%d,\"pair\":1}",
                                                                 a->name, f->name, route_name[rt], (unsigned long long) g_seed, (unsigned long long) (g_from + i), inject);
                                                        out_viol("C20", key, replay_buf, "history case %llu: observable trace differs between runs that differ only in the prior contents of manager/context memory (0x00 / 0xff / random)", (unsigned long long) (g_from + i));
                                                }
                                        out_count("paired_histories", g_count);
                                }
                                if (!sampled && g_count) {
                                        sampled = 1;
                                        out_sample("{\"engine\":\"hashmb\",\"alg\":\"%s\",\"family\":\"%s\",\"route\":\"%s\",\"case\":%llu,\"trace_hash\":\"%016llx\",\"histories\":%llu,\"ops\":%llu,\"completions_checked\":%llu,\"rejected_submits_injected\":%llu}",
                                                   a->name, f->name, route_name[rt], (unsigned long long) g_from, (unsigned long long) tr[0][0], (unsigned long long) g_count,
                                                   (unsigned long long) T.res.ops, (unsigned long long) T.res.completes, (unsigned long long) T.res.rejects);
                                }
                                for (int p = 0; p < npat; p++) free(tr[p]);
                        }
                }
        }
        vcpu_set("host");
        out_finish();
        return viol_count() ? 1 : 0;
}
