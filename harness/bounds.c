/* bounds - guard-page monitor for C08: every buffer handed to the library is exactly as
 * long as the API says, placed against PROT_NONE pages (end-flush, start-flush or in the
 * middle with canaries), inputs are mapped read-only for the duration of the call.
 * A fault outside the supplied ranges, a write into an input, or a changed canary is a violation.
 *   --what gcm | gcmstream | xts | cbc | keyexp | mh | rolling          */
#include "aesfam.h"
#include <sys/mman.h>
#include <isal_crypto_api.h>
#include <aes_gcm.h>
#include <aes_cbc.h>
#include <aes_xts.h>
#include <mh_sha1.h>
#include <mh_sha256.h>
#include <mh_sha1_murmur3_x64_128.h>
#include <rolling_hashx.h>

enum { R_FAM, R_ISAL, R_LEGACY };
static const char *const route_name[] = { "fam", "isal", "legacy" };
static char rbuf[400];
#define REPLAY(what, fam, c) (snprintf(rbuf, sizeof rbuf, "{\"engine\":\"bounds\",\"what\":\"%s\",\"fam\":\"%s\",\"seed\":%llu,\"case\":%llu}", what, fam, (unsigned long long) g_seed, (unsigned long long) (c)), snprintf(cur_replay, sizeof cur_replay, "%s", rbuf), rbuf)

#define CTX_ALIGN 8       /* struct isal_gcm_context_data carries no alignment attribute: uint64_t alignment */
typedef struct { const char *name; gbuf_t g; int ro; uint8_t *copy; } barg_t;
static barg_t bargs[16]; static int nb;
static rng_t R;
static int force_place = -1;

/* allocate an argument buffer of exactly `size` bytes */
static int heap_mode;    /* --heap 1: exact-size malloc blocks instead of guard pages (run under valgrind memcheck, whose red zones
                          * see an over-read of a single byte at any alignment) */
static uint8_t *B(const char *name, size_t size, size_t align, int ro, const void *init)
{
        barg_t *b = &bargs[nb++];
        int pl = force_place >= 0 ? force_place : (int) rng_below(&R, 3);
        b->name = name; b->ro = ro;
        uint8_t *p;
        if (heap_mode) {
                memset(&b->g, 0, sizeof b->g);
                void *m = NULL;
                if (align > 16) { if (posix_memalign(&m, align, size ? size : 1)) out_err("posix_memalign failed"); } else m = malloc(size);
                if (!m) m = malloc(1);
                b->g.p = m; b->g.size = size; p = m;
        } else
        p = galloc(&b->g, size, align, pl, pl == G_MID ? (unsigned) (rng_below(&R, 64) & ~(align - 1)) : 0);
        if (init) memcpy(p, init, size); else memset(p, 0xA5, size);
        b->copy = NULL;
        if (ro && size) { b->copy = malloc(size); memcpy(b->copy, p, size); }
        return p;
}
static void arm(void) { if (!heap_mode) for (int i = 0; i < nb; i++) if (bargs[i].ro) gprot(&bargs[i].g, 1); }
static void disarm(void) { if (!heap_mode) for (int i = 0; i < nb; i++) if (bargs[i].ro) gprot(&bargs[i].g, 0); }
static void release(void) { for (int i = 0; i < nb; i++) { if (heap_mode) free(bargs[i].g.p); else gfree(&bargs[i].g); free(bargs[i].copy); } nb = 0; }

static void report_fault(const char *op, const char *fam)
{
        /* nearest supplied buffer and signed distance */
        const char *near = "none"; long best = 1L << 60, dist = 0;
        for (int i = 0; i < nb; i++) {
                uint8_t *lo = bargs[i].g.p, *hi = lo + bargs[i].g.size, *a = fault_last.addr;
                long d = a < lo ? (long) (a - lo) : a >= hi ? (long) (a - hi) + 1 : 0;
                if (labs(d) < best) { best = labs(d); dist = d; near = bargs[i].name; }
        }
        char key[200];
        snprintf(key, sizeof key, "oob-%s %s %s near=%s %s", fault_last.is_write ? "write" : "read", op, fam, near, dist == 0 ? "inside-readonly-input" : dist < 0 ? "before" : "after");
        out_viol("C08", key, rbuf, "%s at %p, %ld byte(s) %s buffer '%s' (pc %p) during %s", fault_last.is_write ? "write" : "read", fault_last.addr, labs(dist),
                 dist == 0 ? "inside read-only" : dist < 0 ? "before" : "past the end of", near, fault_last.pc, cur_label);
}
/* after a call that returned normally */
static void post(const char *op, const char *fam)
{
        disarm();
        { static int ns; if (ns < 24) { ns++; char bl[400]; size_t o = 0; bl[0] = 0;   /* evidence: the first guarded calls of this worker, written out */
          static const char *const pn[] = { "end-flush", "start-flush", "mid+canaries" };
          for (int i = 0; i < nb && o + 60 < sizeof bl; i++) o += (size_t) snprintf(bl + o, sizeof bl - o, "%s[%zu]%s@%s ", bargs[i].name, bargs[i].g.size, bargs[i].ro ? " read-only" : "", heap_mode ? "heap" : pn[bargs[i].g.placement % 3]);
          clog_on = 1;
          clog_title("guarded calls: every argument buffer has exactly the size the API states and lies against PROT_NONE pages (or is an exact-size heap block under memcheck); inputs are mapped read-only during the call");
          clog_event("%s | buffers: %s| returned without a fault; canaries and read-only inputs compared afterwards", cur_label, bl);
          clog_on = 0; } }
        for (int i = 0; i < nb; i++) {
                long where;
                if (!heap_mode && !gcanary_ok(&bargs[i].g, &where)) {
                        char key[200]; snprintf(key, sizeof key, "canary %s %s buf=%s %s", op, fam, bargs[i].name, where < 0 ? "before" : "after");
                        out_viol("C08", key, rbuf, "byte at offset %ld relative to buffer '%s' (size %zu) was overwritten during %s", where, bargs[i].name, bargs[i].g.size, cur_label);
                }
                if (bargs[i].ro && bargs[i].copy && memcmp(bargs[i].copy, bargs[i].g.p, bargs[i].g.size)) {
                        char key[200]; snprintf(key, sizeof key, "input-modified %s %s buf=%s", op, fam, bargs[i].name);
                        out_viol("C08", key, rbuf, "input buffer '%s' modified during %s", bargs[i].name, cur_label);
                }
        }
}
#define CALL(op, fam, stmt) do { arm(); out_count("guarded_calls", 1); if (GUARDED(stmt)) { disarm(); report_fault(op, fam); faulted = 1; } else post(op, fam); } while (0)

static const char *famsel;
static int fam_selected(const char *n)
{
        if (!strcmp(famsel, "all")) return 1;
        char t[200], w[64]; snprintf(t, sizeof t, ",%s,", famsel); snprintf(w, sizeof w, ",%s,", n);
        return strstr(t, w) != NULL;
}
static uint32_t small_len(uint64_t c, uint32_t lim)
{
        if (c <= lim) return (uint32_t) c;
        switch (rng_below(&R, 4)) {
        case 0: return rng_below(&R, 20000);
        case 1: return 4096 - 40 + rng_below(&R, 80);
        default: return rng_below(&R, 3000);
        }
}

/* ------------------------------------------------------------------ GCM */
static void gcm_case(const gcmfam_t *f, uint64_t c, int stream)
{
        uint32_t len = small_len(c, 1100), aadlen = c % 3 == 0 ? (uint32_t) (c / 3 % 81) : rng_below(&R, 6) == 0 ? rng_below(&R, 2049) : rng_below(&R, 70);
        static const uint32_t tl[3] = { 8, 12, 16 };
        uint32_t taglen = tl[rng_below(&R, 3)];
        int ks = (int) rng_below(&R, 2), dir = (int) rng_below(&R, 2), nt = rng_below(&R, 5) == 0, inplace = !nt && rng_below(&R, 3) == 0;
        int route = (int) rng_below(&R, 3);
        uint8_t key[32]; rng_fill(&R, key, 32);
        /* prepare key data outside the guarded call (its own guarded call below covers precompute) */
        struct isal_gcm_key_data kd0 __attribute__((aligned(64)));
        ref_aes_t a; ref_aes_expand(&a, key, ks_bits2[ks]);
        memset(&kd0, 0, sizeof kd0);
        memcpy(&kd0, a.enc, (size_t) 16 * (a.nr + 1));
        f->s.precomp[ks](&kd0);
        int faulted = 0;
        nb = 0;
        size_t dal = nt ? 64 : 1;
        uint8_t *kd = B("key_data", sizeof kd0, 16, 1, &kd0);
        uint8_t *ctx = B("context", sizeof(struct isal_gcm_context_data), CTX_ALIGN, 0, NULL);
        uint8_t *data = malloc(len + 1); rng_fill(&R, data, len);
        uint8_t *in = inplace ? B("in/out", len, dal, 0, data) : B("in", len, dal, 1, data);
        uint8_t *out = inplace ? in : B("out", len, dal, 0, NULL);
        uint8_t ivv[12], *aadv = malloc(aadlen + 1); rng_fill(&R, ivv, 12); rng_fill(&R, aadv, aadlen);
        uint8_t *iv = B("iv", 12, 1, 1, ivv), *aad = B("aad", aadlen, 1, 1, aadv), *tag = B("tag", taglen, 1, 0, NULL);
        if (nt && force_place < 0) { /* nt requires 64-byte alignment: END placement keeps it only when len%64==0; use START/MID otherwise (alignment honoured by galloc) */ }
        const char *fam = f->name;
        char op[64]; snprintf(op, sizeof op, "gcm%d-%s%s%s", ks_bits2[ks], dir ? "dec" : "enc", nt ? "_nt" : "", stream ? "-stream" : "");
        LABEL("%s %s %s len=%u aad=%u tag=%u inplace=%d", op, fam, route_name[route], len, aadlen, taglen, inplace);
        if (!stream) {
                if (route == R_FAM) CALL(op, fam, f->s.one[ks][dir][nt](kd, ctx, out, in, len, iv, aad, aadlen, tag, taglen));
                else if (route == R_LEGACY) CALL(op, fam, gcm_legacy.s.one[ks][dir][nt](kd, ctx, out, in, len, iv, aad, aadlen, tag, taglen));
                else CALL(op, fam, gcm_isal.one[ks][dir][nt](kd, ctx, out, in, len, iv, aad, aadlen, tag, taglen));
        } else {
                /* pieces live in their own exact-size buffers so an over-read of one piece is visible */
                release(); nb = 0;
                kd = B("key_data", sizeof kd0, 16, 1, &kd0); ctx = B("context", sizeof(struct isal_gcm_context_data), CTX_ALIGN, 0, NULL);
                iv = B("iv", 12, 1, 1, ivv); aad = B("aad", aadlen, 1, 1, aadv);
                if (route == R_FAM) CALL("gcm-init", fam, f->s.init[ks](kd, ctx, iv, aad, aadlen));
                else if (route == R_LEGACY) CALL("gcm-init", fam, gcm_legacy.s.init[ks](kd, ctx, iv, aad, aadlen));
                else CALL("gcm-init", fam, gcm_isal.init[ks](kd, ctx, iv, aad, aadlen));
                uint32_t off = 0; int pieces = 0;
                while (!faulted && (off < len || pieces == 0)) {
                        uint32_t rem = len - off, k = nt ? 64 * rng_below(&R, rem / 64 + 2) : rng_below(&R, 4) == 0 ? rng_below(&R, 18) : rng_below(&R, rem + 1);
                        if (k > rem || pieces > 12) k = rem;
                        if (nt && k < rem) k &= ~63u;
                        int save = nb;
                        uint8_t *pin = inplace ? B("piece-in/out", k, dal, 0, data + off) : B("piece-in", k, dal, 1, data + off);
                        uint8_t *pout = inplace ? pin : B("piece-out", k, dal, 0, NULL);
                        if (route == R_FAM) CALL(op, fam, f->s.upd[ks][dir][nt](kd, ctx, pout, pin, k));
                        else if (route == R_LEGACY) CALL(op, fam, gcm_legacy.s.upd[ks][dir][nt](kd, ctx, pout, pin, k));
                        else CALL(op, fam, gcm_isal.upd[ks][dir][nt](kd, ctx, pout, pin, k));
                        for (int i = save; i < nb; i++) { if (heap_mode) free(bargs[i].g.p); else gfree(&bargs[i].g); free(bargs[i].copy); }
                        nb = save;
                        off += k; pieces++;
                }
                if (!faulted) {
                        tag = B("tag", taglen, 1, 0, NULL);
                        if (route == R_FAM) CALL("gcm-finalize", fam, f->s.fin[ks][dir](kd, ctx, tag, taglen));
                        else if (route == R_LEGACY) CALL("gcm-finalize", fam, gcm_legacy.s.fin[ks][dir](kd, ctx, tag, taglen));
                        else CALL("gcm-finalize", fam, gcm_isal.fin[ks][dir](kd, ctx, tag, taglen));
                }
        }
        cur_label[0] = 0;
        feat(mix64(0x6c8, mix64((uint64_t) (f - gcm_fams) * 128 + (uint64_t) (ks * 64 + dir * 32 + nt * 16 + inplace * 8 + route * 2 + stream), mix64(len > 1100 ? 1101 + (len >> 9) : len, aadlen > 80 ? 81 : aadlen))));
        release(); free(data); free(aadv);
        /* precompute / pre: key_data is an output of exactly sizeof(struct) bytes, the key an input of 16/32 bytes */
        if (c % 16 == 0) {
                nb = 0;
                uint8_t *k2 = B("key", (size_t) ks_bits2[ks] / 8, 1, 1, key), *kdo = B("key_data", sizeof kd0, 16, 0, NULL);
                LABEL("gcm%d pre %s %s", ks_bits2[ks], fam, route_name[route]);
                if (route == R_FAM) { memcpy(kdo, a.enc, (size_t) 16 * (a.nr + 1)); CALL("gcm-precomp", fam, f->s.precomp[ks](kdo)); }
                else if (route == R_LEGACY) CALL("gcm-pre", fam, gcm_legacy.pre[ks](k2, kdo));
                else CALL("gcm-pre", fam, gcm_isal.pre[ks](k2, kdo));
                cur_label[0] = 0;
                release();
        }
}

/* ------------------------------------------------------------------ XTS */
static void xts_case(const xtsfam_t *f, uint64_t c)
{
        uint32_t len = 16 + small_len(c, 1100);
        int ks = (int) rng_below(&R, 2), dir = (int) rng_below(&R, 2), xp = (int) rng_below(&R, 2), inplace = rng_below(&R, 3) == 0, route = (int) rng_below(&R, 3);
        uint8_t key1[32], key2[32], twv[16]; rng_fill(&R, key1, 32); rng_fill(&R, key2, 32); rng_fill(&R, twv, 16);
        ref_aes_t a1, a2; ref_aes_expand(&a1, key1, ks_bits2[ks]); ref_aes_expand(&a2, key2, ks_bits2[ks]);
        size_t ksz = xp ? (size_t) 16 * (a1.nr + 1) : (size_t) ks_bits2[ks] / 8;
        int faulted = 0; nb = 0;
        uint8_t *k1 = B("key1", ksz, 1, 1, xp ? (dir ? (void *) a1.dec : (void *) a1.enc) : (void *) key1);
        uint8_t *k2 = B("key2", ksz, 1, 1, xp ? (void *) a2.enc : (void *) key2);
        uint8_t *tw = B("tweak", 16, 1, 1, twv);
        uint8_t *data = malloc(len); rng_fill(&R, data, len);
        uint8_t *in = inplace ? B("in/out", len, 1, 0, data) : B("in", len, 1, 1, data);
        uint8_t *out = inplace ? in : B("out", len, 1, 0, NULL);
        char op[64]; snprintf(op, sizeof op, "xts%d-%s%s", ks_bits2[ks], dir ? "dec" : "enc", xp ? "-expanded" : "");
        LABEL("%s %s %s len=%u inplace=%d", op, f->name, route_name[route], len, inplace);
        if (route == R_FAM) CALL(op, f->name, f->f[ks][dir][xp](k2, k1, tw, len, in, out));
        else if (route == R_LEGACY) CALL(op, f->name, xts_legacy[ks][dir][xp](k2, k1, tw, len, in, out));
        else CALL(op, f->name, xts_isal[ks][dir][xp](k2, k1, tw, len, in, out));
        cur_label[0] = 0;
        feat(mix64(0x878, mix64((uint64_t) (f - xts_fams) * 64 + (uint64_t) (ks * 32 + dir * 16 + xp * 8 + inplace * 4 + route), len > 1116 ? 1117 + (len >> 9) : len)));
        release(); free(data);
}

/* ------------------------------------------------------------------ CBC + keyexp */
static const struct { const char *vcpu; int e, d, kx; } cbc_combos[3] = { { "sse", 0, 0, 0 }, { "avx", 1, 1, 1 }, { "avx512_g2", 1, 2, 1 } };
static void cbc_case(int ci, uint64_t c)
{
        /* len = 16*N including N = 0 (C04 delegates the zero-length call to this check) */
        uint32_t nblk = c <= 80 ? (uint32_t) c : rng_below(&R, 8) == 0 ? 0 : rng_below(&R, 5) == 0 ? 200 + rng_below(&R, 300) : rng_below(&R, 100);
        uint32_t len = 16 * nblk;
        int ks = (int) rng_below(&R, 3), dir = (int) rng_below(&R, 2), inplace = rng_below(&R, 3) == 0, route = (int) rng_below(&R, 3);
        uint8_t key[32], ivv[16]; rng_fill(&R, key, 32); rng_fill(&R, ivv, 16);
        ref_aes_t a; ref_aes_expand(&a, key, ks_bits3[ks]);
        int faulted = 0; nb = 0;
        uint8_t *keys = B("round_keys", (size_t) 16 * (a.nr + 1), 16, 1, dir ? (void *) a.dec : (void *) a.enc);
        uint8_t *iv = B("iv", 16, 16, 1, ivv);
        uint8_t *data = malloc(len + 1); rng_fill(&R, data, len);
        uint8_t *in = inplace ? B("in/out", len, 1, 0, data) : B("in", len, 1, 1, data);
        uint8_t *out = inplace ? in : B("out", len, 1, 0, NULL);
        const char *fam = dir ? cbc_dec_fams[cbc_combos[ci].d].name : cbc_enc_fams[cbc_combos[ci].e].name;
        char op[64]; snprintf(op, sizeof op, "cbc%d-%s%s", ks_bits3[ks], dir ? "dec" : "enc", len == 0 ? "-len0" : "");
        /* the family symbols are internal: they are called the way the library's own wrappers call them, which never pass len 0 (see aes_cbc.c) */
        if (route == R_FAM && len == 0) route = R_ISAL;
        LABEL("%s %s %s len=%u inplace=%d", op, fam, route_name[route], len, inplace);
        if (route == R_FAM) { if (!dir) CALL(op, fam, cbc_enc_fams[cbc_combos[ci].e].f[ks](in, iv, keys, out, len)); else CALL(op, fam, cbc_dec_fams[cbc_combos[ci].d].f[ks](in, iv, keys, out, len)); }
        else if (route == R_LEGACY) { if (!dir) CALL(op, fam, cbc_enc_legacy[ks](in, iv, keys, out, len)); else CALL(op, fam, cbc_dec_legacy[ks](in, iv, keys, out, len)); }
        else { if (!dir) CALL(op, fam, cbc_enc_isal[ks](in, iv, keys, out, len)); else CALL(op, fam, cbc_dec_isal[ks](in, iv, keys, out, len)); }
        cur_label[0] = 0;
        if (len == 0) out_count("cbc_len0_calls", 1);
        feat(mix64(0xcb8, mix64((uint64_t) (ci * 64 + ks * 16 + dir * 8 + inplace * 4 + route), nblk)));
        release(); free(data);
        /* key expansion: key exactly 16/24/32 bytes, schedules exactly 16*(Nr+1) */
        nb = 0;
        uint8_t *k = B("key", (size_t) ks_bits3[ks] / 8, 1, 1, key), *e = B("exp_key_enc", (size_t) 16 * (a.nr + 1), 16, 0, NULL), *d = B("exp_key_dec", (size_t) 16 * (a.nr + 1), 16, 0, NULL);
        const keyexpfam_t *kf = &keyexp_fams[cbc_combos[ci].kx];
        LABEL("keyexp%d %s %s", ks_bits3[ks], kf->name, route_name[route]);
        if (route == R_FAM) CALL("keyexp", kf->name, kf->f[ks](k, e, d));
        else if (route == R_LEGACY) CALL("keyexp", kf->name, keyexp_legacy[ks](k, e, d));
        else CALL("keyexp", kf->name, keyexp_isal[ks](k, e, d));
        if (ks == 0 && !faulted) { LABEL("keyexp128_enc %s", kf->name); CALL("keyexp-enc", kf->name, kf->enc128(k, e)); }
        cur_label[0] = 0;
        release();
}

/* ------------------------------------------------------------------ multi-hash */
#pragma GCC diagnostic ignored "-Wstrict-prototypes"
#define MHD(alg) extern int _##alg##_update_base(), _##alg##_update_sse(), _##alg##_update_avx(), _##alg##_update_avx2(), _##alg##_update_avx512(), \
        _##alg##_finalize_base(), _##alg##_finalize_sse(), _##alg##_finalize_avx(), _##alg##_finalize_avx2(), _##alg##_finalize_avx512(), _##alg##_init();
MHD(mh_sha1) MHD(mh_sha256) MHD(mh_sha1_murmur3_x64_128)
static const char *const mh_fams[5] = { "base", "sse", "avx", "avx2", "avx512" };
typedef int (*mh_upd_f)(void *, const void *, uint32_t);
typedef int (*mh_fin_f)(void *, void *);
typedef int (*mh_fin2_f)(void *, void *, void *);
typedef struct { const char *name; size_t ctx_size, dlen; void *upd[5], *fin[5], *init, *i_init, *i_upd, *i_fin, *l_init, *l_upd, *l_fin; } mha_t;
#define MHA(alg, dl, T) { #alg, sizeof(T), dl, { _##alg##_update_base, _##alg##_update_sse, _##alg##_update_avx, _##alg##_update_avx2, _##alg##_update_avx512 }, \
        { _##alg##_finalize_base, _##alg##_finalize_sse, _##alg##_finalize_avx, _##alg##_finalize_avx2, _##alg##_finalize_avx512 }, \
        _##alg##_init, isal_##alg##_init, isal_##alg##_update, isal_##alg##_finalize, alg##_init, alg##_update, alg##_finalize }
static const mha_t mhas[3] = { MHA(mh_sha1, 20, struct isal_mh_sha1_ctx), MHA(mh_sha256, 32, struct isal_mh_sha256_ctx), MHA(mh_sha1_murmur3_x64_128, 20, struct isal_mh_sha1_murmur3_x64_128_ctx) };

static void mh_case(int fi, uint64_t c)
{
        const mha_t *a = &mhas[rng_below(&R, 3)];
        int murmur = a == &mhas[2], route = (int) rng_below(&R, 3);
        uint32_t len = c <= 1200 ? (uint32_t) c : rng_below(&R, 4) == 0 ? 1024 * (1 + rng_below(&R, 8)) + rng_below(&R, 19) - 9 : rng_below(&R, 6000);
        int faulted = 0; nb = 0;
        uint8_t *ctx = B("context", a->ctx_size, 8, 0, NULL);
        rng_fill(&R, ctx, a->ctx_size);
        void *fu = route == R_FAM ? a->upd[fi] : route == R_ISAL ? a->i_upd : a->l_upd, *ff = route == R_FAM ? a->fin[fi] : route == R_ISAL ? a->i_fin : a->l_fin;
        void *finit = route == R_FAM ? a->init : route == R_ISAL ? a->i_init : a->l_init;
        LABEL("%s %s %s len=%u", a->name, mh_fams[fi], route_name[route], len);
        if (murmur) CALL("mh-init", mh_fams[fi], ((int (*)(void *, uint64_t)) finit)(ctx, 0x1234)); else CALL("mh-init", mh_fams[fi], ((int (*)(void *)) finit)(ctx));
        uint8_t *data = malloc(len + 1); rng_fill(&R, data, len);
        uint32_t off = 0; int pieces = 0;
        while (!faulted && (off < len || pieces == 0)) {
                uint32_t rem = len - off, k = rng_below(&R, 3) == 0 ? rem : rng_below(&R, rem + 1);
                if (pieces > 6) k = rem;
                int save = nb;
                uint8_t *p = B("buffer", k, 1, 1, data + off);
                CALL("mh-update", mh_fams[fi], ((mh_upd_f) fu)(ctx, p, k));
                for (int i = save; i < nb; i++) { if (heap_mode) free(bargs[i].g.p); else gfree(&bargs[i].g); free(bargs[i].copy); }
                nb = save; off += k; pieces++;
        }
        if (!faulted) {
                uint8_t *dg = B("digest", a->dlen, 1, 0, NULL);
                if (murmur) { uint8_t *m = B("murmur_digest", 16, 1, 0, NULL); CALL("mh-finalize", mh_fams[fi], ((mh_fin2_f) ff)(ctx, dg, m)); }
                else CALL("mh-finalize", mh_fams[fi], ((mh_fin_f) ff)(ctx, dg));
        }
        cur_label[0] = 0;
        feat(mix64(0x318, mix64((uint64_t) ((a - mhas) * 32 + fi * 4 + route), len > 1200 ? 1201 + (len >> 8) : len)));
        release(); free(data);
}

/* ------------------------------------------------------------------ rolling */
static const struct { const char *name, *vcpu; } scans[3] = { { "base", "base" }, { "00", "sse" }, { "04", "avx2" } };
static void roll_case(int si, uint64_t c)
{
        unsigned w = (unsigned) (c % 48) + 1;
        int route = 1 + (int) rng_below(&R, 2);
        int faulted = 0; nb = 0;
        uint8_t init[48]; rng_fill(&R, init, 48);
        uint8_t *st = B("state", sizeof(struct isal_rh_state2), 8, 0, NULL);
        uint8_t *ib = B("init_bytes", w, 1, 1, init);
        LABEL("rolling %s %s w=%u init/reset", scans[si].name, route_name[route], w);
        if (route == R_ISAL) { CALL("rolling-init", scans[si].name, isal_rolling_hash2_init((void *) st, w)); if (!faulted) CALL("rolling-reset", scans[si].name, isal_rolling_hash2_reset((void *) st, ib)); }
        else { CALL("rolling-init", scans[si].name, rolling_hash2_init((void *) st, w)); if (!faulted) CALL("rolling-reset", scans[si].name, rolling_hash2_reset((void *) st, ib)); }
        uint32_t mask = (1u << rng_below(&R, 14)) - 1, trigger = (uint32_t) rng_u64(&R) & mask;
        for (int rep = 0; rep < 6 && !faulted; rep++) {
                uint32_t max;
                switch (rng_below(&R, 7)) { case 0: max = 0; break; case 1: max = 1; break; case 2: max = w > 1 ? rng_below(&R, w) : 0; break; case 3: max = w; break; case 4: max = w + 1 + rng_below(&R, 3); break; default: max = rng_below(&R, 3000); }
                int save = nb;
                uint8_t *data = malloc(max + 1); rng_fill(&R, data, max);
                if (rng_below(&R, 3) == 0) memset(data, 7, max);
                /* the buffer starts right after an inaccessible page half of the time: buffer[i-w] for i<w must come from the remembered window, not from memory */
                int fp = force_place; if (rng_below(&R, 2)) force_place = G_START;
                uint8_t *buf = B("buffer", max, 1, 1, data);
                force_place = fp;
                uint8_t *off = B("offset", 4, 4, 0, NULL), *match = B("match", 4, 4, 0, NULL);
                LABEL("rolling %s %s w=%u run max_len=%u", scans[si].name, route_name[route], w, max);
                if (route == R_ISAL) CALL("rolling-run", scans[si].name, isal_rolling_hash2_run((void *) st, buf, max, mask, trigger, (uint32_t *) off, (int *) match));
                else CALL("rolling-run", scans[si].name, *(int *) match = rolling_hash2_run((void *) st, buf, max, mask, trigger, (uint32_t *) off));
                feat(mix64(0x208, mix64((uint64_t) si * 64 + w, (uint64_t) (max == 0 ? 0 : max < w ? 1 : max == w ? 2 : max < w + 4 ? 3 : 4) * 4 + (uint64_t) route)));
                for (int i = save; i < nb; i++) { if (heap_mode) free(bargs[i].g.p); else gfree(&bargs[i].g); free(bargs[i].copy); }
                nb = save; free(data);
        }
        cur_label[0] = 0;
        release();
}

int main(int argc, char **argv)
{
        out_init(argc, argv);
        if (ref_selfcheck()) out_err("reference oracle self-check failed");
        const char *what = arg_str("--what", "gcm");
        famsel = arg_str("--fam", "all");
        force_place = (int) arg_int("--place", -1);
        heap_mode = (int) arg_int("--heap", 0);
#define LOOP(body) for (uint64_t c = g_from; c < g_from + g_count; c++) { rng_seed(&R, mix64(g_seed ^ 0xb0b0, mix64(c, (uint64_t) fi))); body; }
        if (!strcmp(what, "gcm") || !strcmp(what, "gcmstream")) {
                int stream = !strcmp(what, "gcmstream");
                for (int fi = 0; fi < NGCMFAM; fi++) { if (!fam_selected(gcm_fams[fi].name)) continue; force_vcpu(gcm_fams[fi].vcpu); LOOP(REPLAY(what, gcm_fams[fi].name, c); gcm_case(&gcm_fams[fi], c, stream)); out_count("fam_runs", 1); }
        } else if (!strcmp(what, "xts")) {
                for (int fi = 0; fi < NXTSFAM; fi++) { if (!fam_selected(xts_fams[fi].name)) continue; force_vcpu(xts_fams[fi].vcpu); LOOP(REPLAY(what, xts_fams[fi].name, c); xts_case(&xts_fams[fi], c)); out_count("fam_runs", 1); }
        } else if (!strcmp(what, "cbc")) {
                for (int fi = 0; fi < 3; fi++) { if (!fam_selected(cbc_combos[fi].vcpu)) continue; force_vcpu(cbc_combos[fi].vcpu); LOOP(REPLAY(what, cbc_combos[fi].vcpu, c); cbc_case(fi, c)); out_count("fam_runs", 1); }
        } else if (!strcmp(what, "mh")) {
                for (int fi = 0; fi < 5; fi++) { if (!fam_selected(mh_fams[fi])) continue; force_vcpu(mh_fams[fi]); LOOP(REPLAY(what, mh_fams[fi], c); mh_case(fi, c)); out_count("fam_runs", 1); }
        } else if (!strcmp(what, "rolling")) {
                for (int fi = 0; fi < 3; fi++) { if (!fam_selected(scans[fi].name)) continue; force_vcpu(scans[fi].vcpu); LOOP(REPLAY(what, scans[fi].name, c); roll_case(fi, c)); out_count("fam_runs", 1); }
        } else out_err("unknown --what %s", what);
        out_sample("{\"engine\":\"bounds\",\"what\":\"%s\",\"families\":\"%s\",\"first_case\":%llu,\"cases\":%llu,\"placements\":\"end/start/mid random per buffer\"}", what, famsel, (unsigned long long) g_from, (unsigned long long) g_count);
        vcpu_set("host");
        out_finish();
        return viol_count() ? 1 : 0;
}
