/* mhroll - multi-hash (C05), stitched mh_sha1+murmur3 (C10) and rolling hash (C09)
 * against independent reference definitions. */
#include "common.h"
#include "../ref/ref.h"
#include <isal_crypto_api.h>
#include <mh_sha1.h>
#include <mh_sha256.h>
#include <mh_sha1_murmur3_x64_128.h>
#include <rolling_hashx.h>
#include <sys/mman.h>
#include <unistd.h>
#include <openssl/sha.h>
#pragma GCC diagnostic ignored "-Wdeprecated-declarations"

enum { R_FAM, R_ISAL, R_LEGACY };
static const char *const route_name[] = { "fam", "isal", "legacy" };
static int want_route[3];
static char rbuf[400];
#define REPLAY(what, fam, c) (snprintf(rbuf, sizeof rbuf, "{\"engine\":\"mhroll\",\"what\":\"%s\",\"fam\":\"%s\",\"seed\":%llu,\"case\":%llu}", what, fam, (unsigned long long) g_seed, (unsigned long long) (c)), snprintf(cur_replay, sizeof cur_replay, "%s", rbuf), rbuf)

typedef int (*mh_upd_f)(void *ctx, const void *buf, uint32_t len);
typedef int (*mh_fin_f)(void *ctx, void *digest);
typedef int (*mh_fin2_f)(void *ctx, void *digest, void *murmur);
typedef int (*mh_init_f)(void *ctx);
typedef int (*mh_init2_f)(void *ctx, uint64_t seed);
#pragma GCC diagnostic ignored "-Wstrict-prototypes"
#define MHD(alg) extern int _##alg##_update_base(), _##alg##_update_sse(), _##alg##_update_avx(), _##alg##_update_avx2(), _##alg##_update_avx512(), \
        _##alg##_finalize_base(), _##alg##_finalize_sse(), _##alg##_finalize_avx(), _##alg##_finalize_avx2(), _##alg##_finalize_avx512(), \
        _##alg##_update(), _##alg##_finalize(), _##alg##_init();
MHD(mh_sha1) MHD(mh_sha256) MHD(mh_sha1_murmur3_x64_128)
static const char *const fam_names[5] = { "base", "sse", "avx", "avx2", "avx512" };
typedef struct {
        const char *name; int dwords; size_t ctx_size;
        void *upd[5], *fin[5], *ent_upd, *ent_fin, *init_int;
        void *i_init, *i_upd, *i_fin, *l_init, *l_upd, *l_fin;
} mhalg_t;
#define MHA(alg, dw, T) { #alg, dw, sizeof(T), \
        { _##alg##_update_base, _##alg##_update_sse, _##alg##_update_avx, _##alg##_update_avx2, _##alg##_update_avx512 }, \
        { _##alg##_finalize_base, _##alg##_finalize_sse, _##alg##_finalize_avx, _##alg##_finalize_avx2, _##alg##_finalize_avx512 }, \
        _##alg##_update, _##alg##_finalize, _##alg##_init, isal_##alg##_init, isal_##alg##_update, isal_##alg##_finalize, alg##_init, alg##_update, alg##_finalize }
static const mhalg_t mhalgs[3] = {
        MHA(mh_sha1, 5, struct isal_mh_sha1_ctx), MHA(mh_sha256, 8, struct isal_mh_sha256_ctx), MHA(mh_sha1_murmur3_x64_128, 5, struct isal_mh_sha1_murmur3_x64_128_ctx),
};

static uint32_t mh_len_for(rng_t *r, uint64_t c, int thorough)
{
        if (c <= 2200) return (uint32_t) c;
        switch (rng_below(r, 8)) {
        case 0: return 1024 * (1 + rng_below(r, 40)) + rng_below(r, 19) - 9;
        case 1: return rng_below(r, 262144);
        case 2: return thorough && rng_below(r, 10) == 0 ? (4u << 20) + rng_below(r, 2048) : rng_below(r, 70000);
        case 3: return 1024 * rng_below(r, 64) + 1000 + rng_below(r, 24);       /* second padding block boundary (partial > 1015) */
        default: return rng_below(r, 8192);
        }
}

static void mh_case(const mhalg_t *a, int fi, uint64_t c, int thorough)
{
        int murmur = a == &mhalgs[2];
        rng_t r; rng_seed(&r, mix64(g_seed ^ 0x3141, c));
        uint32_t len = mh_len_for(&r, c, thorough);
        uint64_t seed = 0;
        if (murmur) { static const uint64_t s4[3] = { 0, 1, ~0ULL }; seed = rng_below(&r, 2) ? s4[rng_below(&r, 3)] : rng_u64(&r); }
        uint8_t *base = malloc((size_t) len + 128), *data = base + rng_below(&r, 64);
        {       /* every fifth message lies across a 4 GiB-aligned address */
                static uint8_t *sp; static int tried;
                if (!tried) { tried = 1; sp = straddle_map(4u << 20); }
                if (sp && len > 1 && len < (4u << 20) && rng_below(&r, 5) == 0) { data = sp + (4u << 20) - 1 - rng_below(&r, len - 1); out_count("messages_across_4GiB_boundary", 1); }
        }
        rng_fill(&r, data, len);
        if (rng_below(&r, 8) == 0) memset(data, (int) rng_below(&r, 256), len);
        uint8_t exp[32], expm[16];
        if (a->dwords == 5) ref_mh_sha1(data, len, exp); else ref_mh_sha256(data, len, exp);
        if (murmur) ref_murmur3_x64_128(data, len, seed, expm);
        uint8_t *ctxraw = malloc(a->ctx_size + 64), *ctx = ctxraw + 8 * (c & 7);       /* the context types guarantee 8-byte alignment only: every residue mod 64 */
        for (int route = 0; route < 3; route++) {
                if (!want_route[route]) continue;
                rng_fill(&r, ctxraw, a->ctx_size + 64);        /* junk before init */
                void *fi_init = route == R_FAM ? a->init_int : route == R_ISAL ? a->i_init : a->l_init;
                void *fu = route == R_FAM ? a->upd[fi] : route == R_ISAL ? a->i_upd : a->l_upd;
                void *ff = route == R_FAM ? a->fin[fi] : route == R_ISAL ? a->i_fin : a->l_fin;
                int rc = 0;
                LABEL("%s %s %s len=%u", a->name, fam_names[fi], route_name[route], len);
                rc |= murmur ? ((mh_init2_f) fi_init)(ctx, seed) : ((mh_init_f) fi_init)(ctx);
                rng_t pr; rng_seed(&pr, mix64(c, 0xfa27 + (uint64_t) route));
                uint32_t off = 0; int pieces = 0, style = (int) rng_below(&pr, 5);
                int maxp = rng_below(&pr, 25) == 0 ? 4000 : 40;            /* now and then thousands of tiny updates on one context */
                if (maxp > 40) style = 5;
                char part[160] = ""; size_t po = 0;
                while (off < len || pieces == 0 || (pieces < maxp && rng_below(&pr, 4) == 0)) {
                        uint32_t rem = len - off, carried = off & 1023, need = 1024 - carried, k;
                        switch (style == 4 ? (int) rng_below(&pr, 4) : style) {
                        case 0: k = rem; break;
                        case 1: { uint32_t cls = rng_below(&pr, 5); k = cls == 0 ? 0 : cls == 1 ? (need > 1 ? 1 + rng_below(&pr, need - 1) : 0) : cls == 2 ? need : cls == 3 ? need + 1 + rng_below(&pr, 2000) : need + 1024 * rng_below(&pr, 5); break; }
                        case 2: k = rng_below(&pr, rem + 1); break;
                        case 5: k = rng_below(&pr, 6); break;
                        default: k = rng_below(&pr, 3000); break;
                        }
                        if (k > rem) k = rem;
                        if (pieces >= maxp) k = rem;
                        uint32_t cls = k == 0 ? 0 : (carried && k < need) ? 1 : (carried && k == need) ? 2 : (carried ? 3 : (k < 1024 ? 4 : 5));
                        feat(mix64(0x3141, mix64((uint64_t) (a - mhalgs) * 8 + (uint64_t) fi, mix64(carried ? 1 + (carried >> 6) : 0, cls))));
                        rc |= ((mh_upd_f) fu)(ctx, data + off, k);
                        if (po + 8 < sizeof part) po += (size_t) snprintf(part + po, sizeof part - po, "%u,", k);
                        off += k; pieces++;
                        out_count("mh_update_calls", 1);
                        if (off == len && pieces >= maxp) break;
                }
                uint32_t dg[8]; uint8_t mur[16];
                memset(dg, 0xA5, sizeof dg); memset(mur, 0xA5, 16);
                rc |= murmur ? ((mh_fin2_f) ff)(ctx, dg, mur) : ((mh_fin_f) ff)(ctx, dg);
                cur_label[0] = 0;
                out_count("mh_streams", 1);
                uint8_t got[32];
                for (int i = 0; i < a->dwords; i++) { got[4 * i] = (uint8_t) (dg[i] >> 24); got[4 * i + 1] = (uint8_t) (dg[i] >> 16); got[4 * i + 2] = (uint8_t) (dg[i] >> 8); got[4 * i + 3] = (uint8_t) dg[i]; }
                char key_[160];
                if (rc) { snprintf(key_, sizeof key_, "mh-valid-call-failed %s %s %s", a->name, fam_names[fi], route_name[route]); out_viol(g_prop, key_, rbuf, "a valid init/update/finalize returned %d", rc); }
                if (memcmp(got, exp, (size_t) 4 * a->dwords)) {
                        char g[65], e[65]; hex(g, got, (size_t) 4 * a->dwords); hex(e, exp, (size_t) 4 * a->dwords);
                        snprintf(key_, sizeof key_, "mh-digest-mismatch %s %s %s", a->name, fam_names[fi], route_name[route]);
                        out_viol(g_prop, key_, rbuf, "len=%u pieces=%s digest %s expected %s", len, part, g, e);
                }
                /* the context's documented digest field(s) ("the digest of multi-hash SHA1" ...) hold the same values after finalize */
                if (!rc && (memcmp(ctx, dg, (size_t) 4 * a->dwords) || (murmur && memcmp(ctx + 4 * a->dwords, mur, 16)))) {
                        snprintf(key_, sizeof key_, "mh-context-digest-field %s %s %s", a->name, fam_names[fi], route_name[route]);
                        out_viol(g_prop, key_, rbuf, "len=%u: after finalize the digest field of the context differs from the digest written to the output buffer", len);
                }
                if (murmur && memcmp(mur, expm, 16)) {
                        char g[33], e[33]; hex(g, mur, 16); hex(e, expm, 16);
                        snprintf(key_, sizeof key_, "murmur-mismatch %s %s", fam_names[fi], route_name[route]);
                        out_viol(g_prop, key_, rbuf, "len=%u seed=%llx pieces=%s murmur %s expected %s", len, (unsigned long long) seed, part, g, e);
                }
                { static int ns; if (ns < 40) { ns++; char g[65]; hex(g, got, (size_t) 4 * a->dwords); clog_on = 1;
                  clog_title("multi-hash streams: init, the message cut into update calls, finalize; digest compared with the multi-hash definition built on the reference SHA (and MurmurHash3_x64_128 reference)");
                  clog_event("%s %s %s len=%u seed=%llx pieces[%s]: digest %s %s", a->name, fam_names[fi], route_name[route], len, (unsigned long long) seed, part, g, memcmp(got, exp, (size_t) 4 * a->dwords) ? "DIFFERS" : "equal to the definition");
                  clog_on = 0; } }
                feat(mix64(0x3142, mix64((uint64_t) (a - mhalgs) * 64 + (uint64_t) fi * 8 + (uint64_t) route, mix64(len > 2200 ? 2201 + (len >> 10) : len, (uint64_t) (seed == 0 ? 0 : seed == 1 ? 1 : seed == ~0ULL ? 2 : 3)))));
        }
        free(base); free(ctxraw);
}

/* ---- huge streams (bit length beyond 32 bits, byte length up to 2^32-1): OpenSSL's block transforms as a fast second oracle ---- */
static void fast_mh(const uint8_t *p, uint64_t n, int words, uint8_t *out)
{
        SHA_CTX s1[16]; SHA256_CTX s2[16];
        for (int s = 0; s < 16; s++) { SHA1_Init(&s1[s]); SHA256_Init(&s2[s]); }
        uint8_t blk[64], last[2048];
        uint64_t full = n / 1024, rem = n % 1024;
        memset(last, 0, sizeof last); memcpy(last, p + full * 1024, rem); last[rem] = 0x80;
        uint64_t padded = rem + 1 + 8 > 1024 ? 2048 : 1024, bits = n * 8;
        for (int i = 0; i < 8; i++) last[padded - 1 - i] = (uint8_t) (bits >> (8 * i));
        for (uint64_t b = 0; b < full + padded / 1024; b++) {
                const uint8_t *src = b < full ? p + b * 1024 : last + (b - full) * 1024;
                for (int s = 0; s < 16; s++) {
                        for (int i = 0; i < 16; i++) memcpy(blk + 4 * i, src + 4 * (i * 16 + s), 4);
                        if (words == 5) SHA1_Transform(&s1[s], blk); else SHA256_Transform(&s2[s], blk);
                }
        }
        uint8_t outer[8 * 16 * 4];
        for (int j = 0; j < words; j++) for (int s = 0; s < 16; s++) {
                uint32_t v = words == 5 ? (j == 0 ? s1[s].h0 : j == 1 ? s1[s].h1 : j == 2 ? s1[s].h2 : j == 3 ? s1[s].h3 : s1[s].h4) : s2[s].h[j];
                memcpy(outer + 4 * (j * 16 + s), &v, 4);       /* little-endian host */
        }
        if (words == 5) SHA1(outer, 320, out); else SHA256(outer, 512, out);
}
static void run_mh_huge(const mhalg_t *a, int thorough)
{
        const char *famsel = arg_str("--fam", "all");
        int murmur = a == &mhalgs[2];
        /* periodic stream: 64 MiB memfd mapped back to back */
        const uint64_t PER = 64ull << 20; const int NC = 65;
        int fd = memfd_create("verif-mh", 0);
        if (fd < 0 || ftruncate(fd, (off_t) PER)) out_err("memfd failed");
        uint8_t *st = mmap(NULL, NC * PER, PROT_NONE, MAP_PRIVATE | MAP_ANONYMOUS | MAP_NORESERVE, -1, 0);
        if (st == MAP_FAILED) out_err("cannot reserve address space");
        for (int i = 0; i < NC; i++) if (mmap(st + (uint64_t) i * PER, PER, i == 0 ? PROT_READ | PROT_WRITE : PROT_READ, MAP_SHARED | MAP_FIXED, fd, 0) == MAP_FAILED) out_err("mirror mmap failed");
        rng_t r; rng_seed(&r, g_seed ^ 0x6e6e); rng_fill(&r, st, PER);
        /* cross-validate the fast oracle with the reference on a prefix */
        { uint8_t x[32], y[32]; fast_mh(st, 70000, a->dwords, x); if (a->dwords == 5) ref_mh_sha1(st, 70000, y); else ref_mh_sha256(st, 70000, y); if (memcmp(x, y, (size_t) 4 * a->dwords)) out_err("fast multi-hash oracle disagrees with the reference"); }
        static const uint64_t lq_mh[] = { (1ull << 31) + (1ull << 20) + 100 }, lq_mur[] = { (1ull << 31) + (1ull << 20) + 53 }, lt[] = { (1ull << 29) + 100, (1ull << 31) + (1ull << 20) + 53, (1ull << 32) - 77 };
        const uint64_t *lens = thorough ? lt : murmur ? lq_mur : lq_mh; int nl = thorough ? 3 : 1;
        for (int li = 0; li < nl; li++) {
                uint64_t len = lens[li], seed = 0x123456789abcdef1ULL;
                uint8_t exp[32], expm[16];
                fast_mh(st, len, a->dwords, exp);
                if (murmur) ref_murmur3_x64_128(st, len, seed, expm);
                for (int fi = 0; fi < 5; fi++) for (int shape = 0; shape < 2; shape++) {
                        if (strcmp(famsel, "all") && strcmp(famsel, fam_names[fi])) continue;
                        snprintf(rbuf, sizeof rbuf, "{\"engine\":\"mhroll\",\"what\":\"huge\",\"alg\":\"%s\",\"fam\":\"%s\",\"len\":%llu}", a->name, fam_names[fi], (unsigned long long) len);
                        snprintf(cur_replay, sizeof cur_replay, "%s", rbuf);
                        uint8_t *ctx = malloc(a->ctx_size);
                        memset(ctx, 0x5a, a->ctx_size);
                        LABEL("%s %s huge len=%llu", a->name, fam_names[fi], (unsigned long long) len);
                        if (murmur) ((mh_init2_f) a->init_int)(ctx, seed); else ((mh_init_f) a->init_int)(ctx);
                        /* shape 0: four pieces below 2^31 bytes; shape 1: 7 bytes, one single update of len-1007 bytes (>= 2^31 when len allows), an empty update, 1000 bytes */
                        uint64_t cuts[4] = { (1ull << 28) + 7, len / 2 + 333, len - 1000, len }, off = 0;
                        if (shape == 1) { cuts[0] = 7; cuts[1] = len - 1000; cuts[2] = len - 1000; if (len - 1007 >= (1ull << 31)) out_count("mh_single_updates_ge_2^31", 1); }
                        for (int k = 0; k < 4; k++) { ((mh_upd_f) a->upd[fi])(ctx, st + off, (uint32_t) (cuts[k] - off)); off = cuts[k]; out_count("mh_update_calls", 1); }
                        uint32_t dg[8]; uint8_t mur[16];
                        if (murmur) ((mh_fin2_f) a->fin[fi])(ctx, dg, mur); else ((mh_fin_f) a->fin[fi])(ctx, dg);
                        cur_label[0] = 0;
                        out_count("mh_streams", 1); out_count("mh_huge_streams", 1);
                        uint8_t got[32];
                        for (int i = 0; i < a->dwords; i++) { got[4 * i] = (uint8_t) (dg[i] >> 24); got[4 * i + 1] = (uint8_t) (dg[i] >> 16); got[4 * i + 2] = (uint8_t) (dg[i] >> 8); got[4 * i + 3] = (uint8_t) dg[i]; }
                        char key_[160];
                        if (memcmp(got, exp, (size_t) 4 * a->dwords)) { snprintf(key_, sizeof key_, "mh-huge-digest-mismatch %s %s", a->name, fam_names[fi]); out_viol(g_prop, key_, rbuf, "stream of %llu bytes: digest differs from the multi-hash definition", (unsigned long long) len); }
                        if (murmur && memcmp(mur, expm, 16)) { snprintf(key_, sizeof key_, "murmur-huge-mismatch %s", fam_names[fi]); out_viol(g_prop, key_, rbuf, "stream of %llu bytes: murmur3 value differs from the reference", (unsigned long long) len); }
                        feat(mix64(0x6e6e, mix64((uint64_t) (a - mhalgs) * 8 + (uint64_t) fi, len)));
                        free(ctx);
                        char n[64]; snprintf(n, sizeof n, "cases_%s", fam_names[fi]); out_count(n, 1);
                }
        }
}

static void run_mh(const mhalg_t *a, const char *what, int thorough)
{
        const char *famsel = arg_str("--fam", "all");
        for (int fi = 0; fi < 5; fi++) {
                if (strcmp(famsel, "all") && strcmp(famsel, fam_names[fi])) continue;
                force_vcpu(fam_names[fi]);
                for (uint64_t c = g_from; c < g_from + g_count; c++) { REPLAY(what, fam_names[fi], c); mh_case(a, fi, c, thorough); }
                if (want_route[R_ISAL] || want_route[R_LEGACY]) {
                        if (disp_is_resolved(a->ent_upd) && disp_target_of(a->ent_upd) != a->upd[fi]) out_err("forced dispatch: %s update did not bind to %s", a->name, fam_names[fi]);
                        if (disp_is_resolved(a->ent_fin) && disp_target_of(a->ent_fin) != a->fin[fi]) out_err("forced dispatch: %s finalize did not bind to %s", a->name, fam_names[fi]);
                }
                char n[64]; snprintf(n, sizeof n, "cases_%s", fam_names[fi]); out_count(n, g_count);
        }
}

/* ------------------------------------------------------------------ rolling hash */
typedef uint64_t (*until_f)(uint32_t *idx, int max_idx, uint64_t *t1, uint64_t *t2, uint8_t *b1, uint8_t *b2, uint64_t h, uint64_t mask, uint64_t trigger);
extern uint64_t _rolling_hash2_run_until_base(), _rolling_hash2_run_until_00(), _rolling_hash2_run_until_04(), _rolling_hash2_run_until();
static const struct { const char *name, *vcpu; void *f; } scans[3] = {
        { "base", "base", _rolling_hash2_run_until_base }, { "00", "sse", _rolling_hash2_run_until_00 }, { "04", "avx2", _rolling_hash2_run_until_04 } };

/* model: first k in [1,max] such that H(last w bytes ending at p+k) & mask == trigger */
static uint32_t model_run(const uint8_t *stream, uint64_t p, unsigned w, uint32_t max, uint32_t mask, uint32_t trigger, int *hit)
{
        for (uint32_t k = 1; k <= max; k++) {
                uint64_t h = ref_rolling_hash(stream + p + k - w, w);
                if (((uint32_t) h & mask) == trigger) { *hit = 1; return k; }
        }
        *hit = 0;
        return max;
}

static void roll_case(int si, uint64_t c, int thorough)
{
        rng_t r; rng_seed(&r, mix64(g_seed ^ 0x2011, c));
        unsigned w = (unsigned) (c % 48) + 1;
        uint32_t n = rng_below(&r, 4) == 0 ? rng_below(&r, thorough ? 65536 : 20000) : rng_below(&r, 3000);
        uint8_t *stream = malloc((size_t) w + n + 64);         /* absolute stream: init bytes then data */
        int content = (int) rng_below(&r, 4);
        if (content == 0) rng_fill(&r, stream, w + n);
        else if (content == 1) memset(stream, (int) rng_below(&r, 256), w + n);
        else if (content == 2) for (uint32_t i = 0; i < w + n; i++) stream[i] = (uint8_t) (rng_below(&r, 3));
        else for (uint32_t i = 0; i < w + n; i++) stream[i] = (uint8_t) (i / (1 + c % 7));
        uint32_t bits = rng_below(&r, 17), mask = 0;
        if (rng_below(&r, 3) == 0) { uint32_t mean = 1u << bits, sh = rng_below(&r, 32); mask = ref_rolling_mask(mean, sh); }
        else { for (uint32_t i = 0; i < bits; i++) mask |= 1u << rng_below(&r, 32); }
        uint32_t trigger = (uint32_t) rng_u64(&r) & mask;
        if (rng_below(&r, 3) == 0) trigger = 0;
        for (int route = 1; route < 3; route++) {
                if (!want_route[route]) continue;
                struct isal_rh_state2 *st = malloc(sizeof *st);
                rng_fill(&r, st, sizeof *st);
                if (c % 4 == 1) for (size_t q = 0; q < sizeof *st / 4; q++) ((uint32_t *) st)[q] = w;  /* stale memory that happens to hold the requested window everywhere */
                int rc = 0;
                LABEL("rolling %s %s w=%u n=%u", scans[si].name, route_name[route], w, n);
                if (route == R_ISAL) { rc |= isal_rolling_hash2_init(st, w); rc |= isal_rolling_hash2_reset(st, stream); }
                else { rc |= rolling_hash2_init(st, w); rolling_hash2_reset(st, stream); }
                char key_[160];
                for (int i = 0; i < 256; i++)
                        if (st->table1[i] != ref_rolling_table[i] || st->table2[i] != ((ref_rolling_table[i] << w) | (ref_rolling_table[i] >> (64 - w)))) {
                                snprintf(key_, sizeof key_, "rolling-table-changed"); out_viol(g_prop, key_, rbuf, "table entry %d differs from the pinned constant table (boundaries would differ across versions)", i); break;
                        }
                if (st->hash != ref_rolling_hash(stream, w)) { snprintf(key_, sizeof key_, "rolling-reset-hash"); out_viol(g_prop, key_, rbuf, "hash after reset != hash of the %u init bytes", w); }
                uint64_t p = w;         /* absolute position consumed so far */
                uint8_t *copy = malloc((size_t) n + 1);  /* the library gets a private copy positioned at arbitrary alignment */
                uint8_t *copy_base = copy;
                {       /* every fifth stream lies across a 4 GiB-aligned address */
                        static uint8_t *sp; static int tried;
                        if (!tried) { tried = 1; sp = straddle_map(4u << 20); }
                        if (sp && n > 1 && n < (4u << 20) && rng_below(&r, 5) == 0) { copy = sp + (4u << 20) - 1 - rng_below(&r, n - 1); out_count("messages_across_4GiB_boundary", 1); }
                }
                memcpy(copy, stream + w, n);
                int calls = 0;
                while (p < (uint64_t) w + n || calls == 0) {
                        uint32_t rem = (uint32_t) (w + n - p), max;
                        switch (rng_below(&r, 8)) {
                        case 0: max = 0; break;
                        case 1: max = 1; break;
                        case 2: max = w > 1 ? rng_below(&r, w) : 0; break;
                        case 3: max = w; break;
                        case 4: max = w + 1; break;
                        case 5: max = rem; break;
                        default: max = rng_below(&r, rem + 1); break;
                        }
                        if (max > rem) max = rem;
                        if (calls > 300) max = rem;
                        int ehit; uint32_t eoff = model_run(stream, p, w, max, mask, trigger, &ehit);
                        uint32_t off = 0xdeadbeef; int match = -77;
                        /* the buffer handed to the library starts at the current position; bytes before it belong to earlier calls */
                        uint8_t *buf = copy + (p - w);
                        if (route == R_ISAL) rc |= isal_rolling_hash2_run(st, buf, max, mask, trigger, &off, &match);
                        else match = rolling_hash2_run(st, buf, max, mask, trigger, &off);
                        calls++;
                        out_count("rolling_run_calls", 1);
                        { static int ns; if (ns < 40) { ns++; clog_on = 1;
                          clog_title("rolling-hash streams: init(w), reset, then run calls of arbitrary max_len over consecutive positions; offset and match flag compared with a from-scratch evaluation of the table formula at every position");
                          clog_event("w=%u mask=%08x trigger=%08x position=%llu max_len=%u via %s: library offset=%u result=%s, model offset=%u result=%s", w, mask, trigger, (unsigned long long) p, max, route_name[route], off, match == 0 ? "HIT" : match == 1 ? "MAX" : "other", eoff, ehit ? "HIT" : "MAX");
                          clog_on = 0; } }
                        feat(mix64(0x2011, mix64((uint64_t) si * 64 + w, mix64((uint64_t) (max == 0 ? 0 : max < w ? 1 : max == w ? 2 : 3) * 2 + (uint64_t) ehit, (uint64_t) (eoff < w ? eoff : w + (eoff > 64))))));
                        if (off != eoff || match != (ehit ? ISAL_FINGERPRINT_RET_HIT : ISAL_FINGERPRINT_RET_MAX)) {
                                snprintf(key_, sizeof key_, "rolling-boundary %s %s", scans[si].name, route_name[route]);
                                out_viol(g_prop, key_, rbuf, "w=%u pos=%llu max_len=%u mask=%08x trigger=%08x: got offset %u match %d, model says offset %u %s", w, (unsigned long long) (p - w), max, mask, trigger, off, match, eoff, ehit ? "HIT" : "MAX");
                                break;
                        }
                        p += eoff;
                        if (st->hash != ref_rolling_hash(stream + p - w, w)) {
                                snprintf(key_, sizeof key_, "rolling-state-hash %s %s", scans[si].name, route_name[route]);
                                out_viol(g_prop, key_, rbuf, "w=%u after pos=%llu: state hash is not the hash of the last w bytes", w, (unsigned long long) (p - w));
                                break;
                        }
                        if (memcmp(st->history, stream + p - w, w)) {
                                snprintf(key_, sizeof key_, "rolling-history %s %s", scans[si].name, route_name[route]);
                                out_viol(g_prop, key_, rbuf, "w=%u after pos=%llu: remembered window is not the last w bytes", w, (unsigned long long) (p - w));
                                break;
                        }
                        if (ehit) out_count("rolling_hits", 1);
                        if (calls > 320) break;
                }
                cur_label[0] = 0;
                if (rc) { snprintf(key_, sizeof key_, "rolling-valid-call-failed"); out_viol(g_prop, key_, rbuf, "valid call returned %d", rc); }
                if (memcmp(copy, stream + w, n)) { snprintf(key_, sizeof key_, "rolling-input-modified"); out_viol(g_prop, key_, rbuf, "input buffer modified"); }
                out_count("rolling_streams", 1);
                free(copy_base); free(st);
        }
        /* direct three-way comparison of the scan kernels on identical arguments */
        if (want_route[R_FAM] && n > w) {
                /* called the way _rolling_hash2_run calls them: index w, hash of data[0..w), second pointer w bytes behind */
                struct isal_rh_state2 *st = malloc(sizeof *st);
                rolling_hash2_init(st, w);
                uint64_t h0 = ref_rolling_hash(stream + w, w);
                uint32_t eidx = n;
                for (uint32_t i = w; i < n; i++) if (((uint32_t) ref_rolling_hash(stream + i + 1, w) & mask) == trigger) { eidx = i; break; }
                uint64_t eh = ref_rolling_hash(stream + (eidx < n ? eidx + 1 : n), w);
                for (int k = 0; k < (g_noarch ? 1 : 3); k++) {
                        uint32_t idx = w;
                        LABEL("rolling run_until_%s direct w=%u n=%u", scans[k].name, w, n);
                        uint64_t hh = ((until_f) scans[k].f)(&idx, (int) n, st->table1, st->table2, stream + w, stream, h0, mask, trigger);
                        cur_label[0] = 0;
                        if (idx != eidx || hh != eh) {
                                char key_[100]; snprintf(key_, sizeof key_, "rolling-scan-kernel %s", scans[k].name);
                                out_viol(g_prop, key_, rbuf, "direct scan w=%u n=%u mask=%08x trigger=%08x: idx %u hash %016llx, model idx %u hash %016llx", w, n, mask, trigger, idx, (unsigned long long) hh, eidx, (unsigned long long) eh);
                        }
                }
                out_count("rolling_direct_scans", 3);
                free(st);
        }
        free(stream);
}

/* one run call over more than 2^31 bytes: incremental model from the golden table, cross-checked with the from-scratch formula on a prefix */
static void run_rolling_huge(int thorough)
{
        const char *famsel = arg_str("--fam", "all");
        uint64_t N = (1ull << 31) + (1ull << 27);
        uint8_t *buf = malloc(N + 64);
        if (!buf) out_err("cannot allocate %llu bytes", (unsigned long long) N);
        { uint64_t x = g_seed | 1, *q = (uint64_t *) buf; for (uint64_t i = 0; i < N / 8 + 1; i++) { x ^= x << 13; x ^= x >> 7; x ^= x << 17; q[i] = x; } }
        for (int si = 0; si < 3; si++) {
                if (strcmp(famsel, "all") && strcmp(famsel, scans[si].name)) continue;
                force_vcpu(scans[si].vcpu);
                for (int rep = 0; rep < (thorough ? 6 : 3); rep++) {
                        unsigned w = rep == 0 ? 48 : 1 + (unsigned) ((g_seed + (uint64_t) rep * 13 + (uint64_t) si) % 48);
                        uint32_t mask = 0xffffffffu, max_len = rep % 2 == 0 ? 0x80000005u : (uint32_t) (N - 64 - w);
                        /* trigger = hash value found deep inside the buffer, so there is a hit at or before that position */
                        uint64_t target = rep % 2 == 0 ? (1ull << 31) - 77 : (1ull << 31) + 4099;
                        uint32_t trigger = (uint32_t) ref_rolling_hash(buf + target - w, w);
                        if (rep == 2 || rep == 5) { trigger = 0; max_len = rep == 2 ? 0x80000005u : (uint32_t) (N - 64 - w); }       /* the zero trigger has its own loop in the base scan */
                        /* model: incremental scan for the first k >= 1 with H(buf[k-w .. k)) & mask == trigger, k counted from position w */
                        uint64_t h = ref_rolling_hash(buf, w), T2[256];
                        for (int i = 0; i < 256; i++) T2[i] = (ref_rolling_table[i] << w) | (ref_rolling_table[i] >> (64 - w));
                        uint32_t eoff = max_len; int ehit = 0;
                        for (uint64_t k = 1; k <= max_len; k++) {
                                h = ((h << 1) | (h >> 63)) ^ ref_rolling_table[buf[w + k - 1]] ^ T2[buf[k - 1]];
                                if (k == 5000 && h != ref_rolling_hash(buf + k, w)) out_err("incremental rolling model disagrees with the from-scratch formula");
                                if (((uint32_t) h & mask) == trigger) { eoff = (uint32_t) k; ehit = 1; break; }
                        }
                        snprintf(rbuf, sizeof rbuf, "{\"engine\":\"mhroll\",\"what\":\"rolling_huge\",\"scan\":\"%s\",\"w\":%u,\"max_len\":%u}", scans[si].name, w, max_len);
                        snprintf(cur_replay, sizeof cur_replay, "%s", rbuf);
                        struct isal_rh_state2 *st = malloc(sizeof *st);
                        uint32_t off = 0xdeadbeef; int match = -77, rc = 0;
                        LABEL("rolling %s huge run w=%u max_len=%u", scans[si].name, w, max_len);
                        rc |= isal_rolling_hash2_init(st, w); rc |= isal_rolling_hash2_reset(st, buf);
                        rc |= isal_rolling_hash2_run(st, buf + w, max_len, mask, trigger, &off, &match);
                        cur_label[0] = 0;
                        out_count("rolling_run_calls", 1); out_count("rolling_huge_runs", 1); if (ehit) out_count("rolling_hits", 1);
                        feat(mix64(0x2012, mix64((uint64_t) si * 64 + w, max_len)));
                        char key_[120];
                        if (rc || off != eoff || match != (ehit ? ISAL_FINGERPRINT_RET_HIT : ISAL_FINGERPRINT_RET_MAX)) {
                                snprintf(key_, sizeof key_, "rolling-huge-boundary %s", scans[si].name);
                                out_viol(g_prop, key_, rbuf, "single run over max_len=%u (w=%u): got offset %u match %d rc %d, model says offset %u %s", max_len, w, off, match, rc, eoff, ehit ? "HIT" : "MAX");
                        }
                        free(st);
                }
                char n[64]; snprintf(n, sizeof n, "cases_%s", scans[si].name); out_count(n, 1);
        }
        free(buf);
        out_count("rolling_direct_scans", 1); out_count("mask_gen_calls", 1);
}

static void run_rolling(int thorough)
{
        const char *famsel = arg_str("--fam", "all");
        for (int si = 0; si < 3; si++) {
                if (strcmp(famsel, "all") && strcmp(famsel, scans[si].name)) continue;
                force_vcpu(scans[si].vcpu);
                for (uint64_t c = g_from; c < g_from + g_count; c++) { REPLAY("rolling", scans[si].name, c); roll_case(si, c, thorough); }
                if (disp_is_resolved((void *) _rolling_hash2_run_until) && disp_target_of((void *) _rolling_hash2_run_until) != scans[si].f)
                        out_err("forced dispatch: rolling scan did not bind to %s", scans[si].name);
                char n[64]; snprintf(n, sizeof n, "cases_%s", scans[si].name); out_count(n, g_count);
        }
        /* mask_gen: every shift, means around powers of two */
        if (g_from == 0) {
                for (uint32_t sh = 0; sh < 32; sh++)
                        for (uint32_t e = 0; e < 32; e++)
                                for (int d = -1; d <= 1; d++) {
                                        uint32_t mean = (1u << e) + (uint32_t) d, got = 0;
                                        int rc = isal_rolling_hashx_mask_gen(mean, sh, &got);
                                        uint32_t leg = rolling_hashx_mask_gen((long) mean, (int) sh);
                                        out_count("mask_gen_calls", 2);
                                        if (rc || got != ref_rolling_mask(mean, sh) || leg != got) {
                                                out_viol(g_prop, "rolling-mask-gen", NULL, "mask_gen(mean=%u, shift=%u) = %08x (legacy %08x, rc %d), expected %08x", mean, sh, got, leg, rc, ref_rolling_mask(mean, sh));
                                                sh = 32; e = 32; break;
                                        }
                                }
        }
}

int main(int argc, char **argv)
{
        out_init(argc, argv);
        if (ref_selfcheck()) out_err("reference oracle self-check failed");
        const char *what = arg_str("--what", "mh_sha1"), *routes = arg_str("--route", "fam,isal,legacy");
        for (int i = 0; i < 3; i++) want_route[i] = strstr(routes, route_name[i]) != NULL;
        int thorough = !strcmp(arg_str("--tier", "quick"), "thorough");
        if (!strcmp(what, "mh_sha1_huge")) run_mh_huge(&mhalgs[0], thorough);
        else if (!strcmp(what, "mh_sha256_huge")) run_mh_huge(&mhalgs[1], thorough);
        else if (!strcmp(what, "murmur_huge")) run_mh_huge(&mhalgs[2], thorough);
        else if (!strcmp(what, "mh_sha1")) run_mh(&mhalgs[0], what, thorough);
        else if (!strcmp(what, "mh_sha256")) run_mh(&mhalgs[1], what, thorough);
        else if (!strcmp(what, "murmur")) run_mh(&mhalgs[2], what, thorough);
        else if (!strcmp(what, "rolling")) run_rolling(thorough);
        else if (!strcmp(what, "rolling_huge")) run_rolling_huge(thorough);
        else out_err("unknown --what %s", what);
        out_sample("{\"engine\":\"mhroll\",\"what\":\"%s\",\"routes\":\"%s\",\"first_case\":%llu,\"cases\":%llu}", what, routes, (unsigned long long) g_from, (unsigned long long) g_count);
        vcpu_set("host");
        out_finish();
        return viol_count() ? 1 : 0;
}
