/* dispatch - C12: what the run-time dispatchers bind under every CPU/OS configuration.
 *  --mode trace   : for every family that some configuration binds, run the entry's workload under the single-stepper
 *                   (EFLAGS.TF) and write the set of executed instruction addresses inside the library (the driver joins
 *                   them with objdump and classifies each instruction by ISA extension -> requirement mask per target).
 *  --mode observe : enumerate virtual CPU/OS configurations through the ISAL_CRYPTO_VERIF hook; for each, re-arm the 64
 *                   dispatch slots, call every entry once, read the binding and check it against the requirement masks,
 *                   the same-family groups, binding stability and a functional smoke result. */
#include "entrycall.h"
#include <ucontext.h>

/* ---- feature bits of a requirement / availability mask ---- */
enum { F_SSE41, F_SSE42, F_AVX, F_AVX2, F_BMI, F_512F, F_512VL, F_512BW, F_512DQ, F_512CD, F_VBMI2, F_GFNI, F_VAES, F_VPCLMUL, F_VNNI, F_BITALG, F_VPOPCNT, F_SHA, F_IFMA, F_VBMI, F_NFEAT };
static const char *const feat_name[F_NFEAT] = { "SSE4.1", "SSE4.2", "AVX", "AVX2", "BMI1/2", "AVX512F", "AVX512VL", "AVX512BW", "AVX512DQ", "AVX512CD", "AVX512_VBMI2", "GFNI", "VAES", "VPCLMULQDQ", "AVX512_VNNI", "AVX512_BITALG", "AVX512_VPOPCNTDQ", "SHA", "AVX512_IFMA", "AVX512_VBMI" };

/* ---- a configuration: the bits the dispatchers can observe ---- */
typedef struct { unsigned sse41 : 1, sse42 : 1, osxsave : 1, avx : 1, avx2 : 1, f : 1, dq : 1, cd : 1, bw : 1, vl : 1, sha : 1, vbmi2 : 1, gfni : 1, vaes : 1, vpclmul : 1, vnni : 1, bitalg : 1, vpopcnt : 1, avoton : 1, x_sse : 1, x_avx : 1, x_zmm : 1; } cfg_t;
#define B(n) (1u << (n))
static int consistent(const cfg_t *c)
{
        if (c->sse42 && !c->sse41) return 0;
        if (c->avx && !c->sse42) return 0;
        if (c->avx2 && !c->avx) return 0;
        if (c->f && !c->avx2) return 0;
        if ((c->dq || c->cd || c->bw || c->vl || c->vbmi2 || c->vnni || c->bitalg || c->vpopcnt) && !c->f) return 0;
        if (!c->osxsave && (c->x_sse || c->x_avx || c->x_zmm)) return 0;        /* XCR0 unreadable: one representative */
        if (c->x_avx && (!c->x_sse || !c->avx)) return 0;
        if (c->x_zmm && (!c->x_avx || !c->f)) return 0;
        if (c->avoton && c->avx) return 0;
        if (c->sha && !c->sse41) return 0;
        if ((c->vaes || c->vpclmul || c->gfni) && !c->sse42) return 0;
        return 1;
}
static void install(const cfg_t *c)
{
        struct vcpu *v = &isal_verif_vcpu;
        uint32_t l1 = B(0) | B(1) | B(9) | B(13) | B(22) | B(23) | B(25);      /* SSE3 PCLMUL SSSE3 CX16 MOVBE POPCNT AESNI: assumed present */
        if (c->sse41) l1 |= B(19);
        if (c->sse42) l1 |= B(20);
        if (c->osxsave) l1 |= B(26) | B(27);
        if (c->avx) l1 |= B(28) | B(12);
        uint32_t b = 0, cx = 0;
        if (c->avx2) b |= B(5) | B(3) | B(8);
        if (c->f) b |= B(16);
        if (c->dq) b |= B(17);
        if (c->cd) b |= B(28);
        if (c->bw) b |= B(30);
        if (c->vl) b |= B(31);
        if (c->sha) b |= B(29);
        if (c->vbmi2) cx |= B(6);
        if (c->gfni) cx |= B(8);
        if (c->vaes) cx |= B(9);
        if (c->vpclmul) cx |= B(10);
        if (c->vnni) cx |= B(11);
        if (c->bitalg) cx |= B(12);
        if (c->vpopcnt) cx |= B(14);
        v->l1_eax = c->avoton ? 0x000406d8 : 0x000906ea; v->l1_ecx = l1; v->l1_edx = 0x078bfbff; v->l7_ebx = b; v->l7_ecx = cx; v->l7_edx = 0;
        v->xcr0 = (c->x_sse ? 3u : 0) | (c->x_avx ? 4u : 0) | (c->x_zmm ? 0xe0u : 0);
        v->active = 1;
}
static uint32_t available(const cfg_t *c)
{
        uint32_t m = 0;
        int vex = c->avx && c->osxsave && c->x_sse && c->x_avx;
        int evex = vex && c->x_zmm && c->f;
        if (c->sse41) m |= B(F_SSE41);
        if (c->sse42) m |= B(F_SSE42);
        if (vex) m |= B(F_AVX);
        if (vex && c->avx2) m |= B(F_AVX2) | B(F_BMI);
        if (evex) m |= B(F_512F);
        if (evex && c->vl) m |= B(F_512VL);
        if (evex && c->bw) m |= B(F_512BW);
        if (evex && c->dq) m |= B(F_512DQ);
        if (evex && c->cd) m |= B(F_512CD);
        if (evex && c->vbmi2) m |= B(F_VBMI2);
        if (evex && c->vnni) m |= B(F_VNNI);
        if (evex && c->bitalg) m |= B(F_BITALG);
        if (evex && c->vpopcnt) m |= B(F_VPOPCNT);
        if (c->gfni) m |= B(F_GFNI);            /* together with the encoding class (AVX / AVX512F) the instruction also needs */
        if (c->vaes) m |= B(F_VAES);
        if (c->vpclmul) m |= B(F_VPCLMUL);
        if (c->sha) m |= B(F_SHA);
        return m;
}
static void cfg_str(const cfg_t *c, char *d, size_t n)
{
        snprintf(d, n, "sse4.1=%d sse4.2=%d osxsave=%d avx=%d avx2=%d avx512{f=%d dq=%d cd=%d bw=%d vl=%d} sha=%d g2{vbmi2=%d gfni=%d vaes=%d vpclmulqdq=%d vnni=%d bitalg=%d vpopcntdq=%d} avoton=%d xcr0{sse=%d avx=%d zmm=%d}",
                 c->sse41, c->sse42, c->osxsave, c->avx, c->avx2, c->f, c->dq, c->cd, c->bw, c->vl, c->sha, c->vbmi2, c->gfni, c->vaes, c->vpclmul, c->vnni, c->bitalg, c->vpopcnt, c->avoton, c->x_sse, c->x_avx, c->x_zmm);
}
static uint32_t cfg_bits(const cfg_t *c) { uint32_t v; memcpy(&v, c, sizeof v < sizeof *c ? sizeof v : sizeof *c); return v; }

/* enumerate configurations: quick = quotient (each AVX-512 group: all / none / one bit missing), thorough = every assignment */
static cfg_t *cfgs; static size_t ncfg;
static void add_cfg(cfg_t c) { if (!consistent(&c)) return; static size_t cap; if (ncfg == cap) { cap = cap ? cap * 2 : 4096; cfgs = realloc(cfgs, cap * sizeof *cfgs); } cfgs[ncfg++] = c; }
static void enumerate(int thorough)
{
        unsigned g1opt[40], ng1 = 0, g2opt[140], ng2 = 0;
        if (thorough) { for (unsigned m = 0; m < 32; m++) g1opt[ng1++] = m; for (unsigned m = 0; m < 128; m++) g2opt[ng2++] = m; }
        else {
                g1opt[ng1++] = 0; g1opt[ng1++] = 31; for (int i = 0; i < 5; i++) g1opt[ng1++] = 31 & ~(1u << i); g1opt[ng1++] = 1;        /* none, all, one missing, F only */
                g2opt[ng2++] = 0; g2opt[ng2++] = 127; for (int i = 0; i < 7; i++) g2opt[ng2++] = 127 & ~(1u << i); g2opt[ng2++] = 4 | 8;  /* none, all, one missing, VAES+VPCLMULQDQ only */
        }
        for (unsigned sse = 0; sse < 3; sse++) for (unsigned osx = 0; osx < 2; osx++) for (unsigned avx = 0; avx < 2; avx++) for (unsigned avx2 = 0; avx2 < 2; avx2++)
        for (unsigned sha = 0; sha < 2; sha++) for (unsigned avo = 0; avo < 2; avo++) for (unsigned x = 0; x < 4; x++)
        for (unsigned i1 = 0; i1 < ng1; i1++) for (unsigned i2 = 0; i2 < ng2; i2++) {
                cfg_t c; memset(&c, 0, sizeof c);
                unsigned g1 = g1opt[i1], g2 = g2opt[i2];
                c.sse41 = sse >= 1; c.sse42 = sse >= 2; c.osxsave = osx; c.avx = avx; c.avx2 = avx2; c.sha = sha; c.avoton = avo;
                c.f = g1 & 1; c.dq = g1 >> 1 & 1; c.cd = g1 >> 2 & 1; c.bw = g1 >> 3 & 1; c.vl = g1 >> 4 & 1;
                c.vbmi2 = g2 & 1; c.gfni = g2 >> 1 & 1; c.vaes = g2 >> 2 & 1; c.vpclmul = g2 >> 3 & 1; c.vnni = g2 >> 4 & 1; c.bitalg = g2 >> 5 & 1; c.vpopcnt = g2 >> 6 & 1;
                c.x_sse = x >= 1; c.x_avx = x >= 2; c.x_zmm = x >= 3;
                add_cfg(c);
        }
}

/* ---- families ---- */
static const char *family_of(const char *target)
{
        static const char *const toks[] = { "vaes_avx512", "avx512_ni", "avx_gen4", "avx_gen2", "sse_ni", "sb_sse4", "avx512", "avx2", "_avx", "_sse", "_base", "_vaes", "_x4", "_x8", "_00", "_04", NULL };
        for (int i = 0; toks[i]; i++) if (strstr(target, toks[i])) return toks[i][0] == '_' ? toks[i] + 1 : toks[i];
        return "?";
}
/* group id of an entry: entries of one group operate on one shared object and must bind to one family */
static int group_of(const sentry_t *s)
{
        if (s->kind <= 2) return 100 + s->a;                    /* hash manager init/submit/flush per algorithm */
        if (s->kind >= 10 && s->kind <= 14) return 200 + s->a;  /* GCM per key size: precompute/init/update/finalize/one-shot incl. nt */
        if (s->kind == 50 || s->kind == 51) return 300 + s->a;  /* multi-hash update/finalize */
        return -1;
}

/* ---- requirement masks from the trace phase ---- */
static struct { char name[96]; uint32_t req; } reqs[400]; static int nreq;
static void load_reqs(const char *path)
{
        FILE *f = fopen(path, "r");
        if (!f) out_err("requirement file %s missing (trace phase did not run?)", path);
        char nm[200]; unsigned m;
        while (fscanf(f, "%199s %x", nm, &m) == 2 && nreq < 400) { snprintf(reqs[nreq].name, sizeof reqs[nreq].name, "%s", nm); reqs[nreq].req = m; nreq++; }
        fclose(f);
}
static int req_of(const char *target, uint32_t *m)
{
        for (int i = 0; i < nreq; i++) if (!strcmp(reqs[i].name, target)) { *m = reqs[i].req; return 1; }
        return 0;
}

/* ================================================================== trace */
static volatile int tracing;
static uintptr_t lib_lo, lib_hi;
static uint64_t *tset; static size_t tcap, tn; static uint64_t tsteps;
static void tadd(uint64_t a)
{
        if (tn * 2 >= tcap) { size_t nc = tcap ? tcap * 2 : 1 << 14; uint64_t *ns = calloc(nc, 8); for (size_t i = 0; i < tcap; i++) if (tset[i]) { size_t j = (tset[i] * 0x9e3779b97f4a7c15ULL >> 20) & (nc - 1); while (ns[j]) j = (j + 1) & (nc - 1); ns[j] = tset[i]; } free(tset); tset = ns; tcap = nc; }
        size_t j = (a * 0x9e3779b97f4a7c15ULL >> 20) & (tcap - 1);
        while (tset[j] && tset[j] != a) j = (j + 1) & (tcap - 1);
        if (!tset[j]) { tset[j] = a; tn++; }
}
static void on_trap(int sig, siginfo_t *si, void *ucv)
{
        (void) sig; (void) si;
        ucontext_t *uc = ucv;
        uintptr_t rip = (uintptr_t) uc->uc_mcontext.gregs[REG_RIP];
        tsteps++;
        if (rip >= lib_lo && rip < lib_hi) tadd(rip);
}
#define TF_ON() __asm__ volatile("pushfq\n\torq $0x100,(%%rsp)\n\tpopfq" ::: "memory", "cc")
#define TF_OFF() __asm__ volatile("pushfq\n\tandq $~0x100,(%%rsp)\n\tpopfq" ::: "memory", "cc")

static void trace_workload(const sentry_t *s, priv_t *p)
{
        static const int lens[] = { 0, 1, 16, 17, 64, 100, 128, 144, 256, 300, 768, 800, 1600 };
        if (s->kind <= 2) {
                /* hash managers: fill all lanes with jobs of assorted lengths, partial flushes, as the dispatched trio */
                const halg_t *al = &halgs[s->a];
                uint8_t *mgr = aligned_alloc(64, (al->mgr_size + 63) & ~(size_t) 63);
                uint8_t *ctx[40];
                for (int i = 0; i < 40; i++) ctx[i] = aligned_alloc(64, (al->ctx_size + 63) & ~(size_t) 63);
                for (int round = 0; round < 2; round++) {
                        int n = round == 0 ? 1 : al->max_lanes + 2;
                        void *r_;
                        TF_ON(); ((h_init_f) al->entry[0])(mgr); TF_OFF();
                        for (int i = 0; i < n; i++) { al->ctx_init(ctx[i]); TF_ON(); ((h_submit_f) al->entry[1])(mgr, ctx[i], p->in, (uint32_t) ((i * 37 + 5) % 330), ISAL_HASH_ENTIRE); TF_OFF(); }
                        do { TF_ON(); r_ = ((h_flush_f) al->entry[2])(mgr); TF_OFF(); } while (r_);
                }
                /* segmented messages: partial blocks carried, completed and padded by the context layer of the family */
                {
                        static const uint32_t seg[][5] = { { 100, 60, 0, 3 * 128 + 5, 7 }, { 0, 1, 127, 128, 0 }, { 250, 6, 300, 0, 200 } };
                        TF_ON(); ((h_init_f) al->entry[0])(mgr); TF_OFF();
                        for (int j = 0; j < 3; j++) {
                                al->ctx_init(ctx[j]);
                                uint32_t off = 0;
                                for (int k = 0; k < 5; k++) {
                                        int fl = k == 0 ? ISAL_HASH_FIRST : k == 4 ? ISAL_HASH_LAST : ISAL_HASH_UPDATE;
                                        void *r_;
                                        TF_ON(); r_ = ((h_submit_f) al->entry[1])(mgr, ctx[j], p->in + off % 200, seg[j][k], fl); TF_OFF();
                                        while (!r_ || r_ != ctx[j]) { TF_ON(); r_ = ((h_flush_f) al->entry[2])(mgr); TF_OFF(); if (!r_) break; }
                                        off += seg[j][k];
                                }
                        }
                }
                for (int i = 0; i < 40; i++) free(ctx[i]);
                free(mgr);
                return;
        }
        for (size_t i = 0; i < sizeof lens / sizeof lens[0]; i++) {
                entrycall_len = lens[i];
                if ((s->kind == 14 || s->kind == 11 || s->kind == 13 || s->kind == 40 || s->kind == 41 || s->kind == 51) && i > 1) break;
                entrycall_trace = 1;
                call_entry(s, p, 7 + i);
                entrycall_trace = 0;
        }
        if (s->kind == 10 || s->kind == 12) {
                /* GCM: messages long enough for the low counter byte to wrap (> 4 KiB) take a slower counter path in some families */
                static const int gl[] = { 4200, 8300 };
                for (int i = 0; i < 2; i++) { entrycall_len = gl[i]; entrycall_trace = 1; call_entry(s, p, 31 + (uint64_t) i); entrycall_trace = 0; }
        }
        if (s->kind == 20) {
                /* XTS: every number of trailing whole blocks, with and without ciphertext stealing, after zero and after one pass of the 8-block loop */
                for (int base = 0; base <= 128; base += 128) for (int n = 1; n <= 7; n++) for (int st = 0; st < 2; st++) {
                        entrycall_len = base + 16 * n + 5 * st;
                        entrycall_trace = 1; call_entry(s, p, 41 + (uint64_t) (base + n * 2 + st)); entrycall_trace = 0;
                }
        }
        if (s->kind == 10 || s->kind == 11 || s->kind == 13) {
                /* GCM: the other tag lengths and AAD lengths have branches of their own */
                static const uint32_t tl[] = { 12, 8, 16 }, al_[] = { 0, 1, 16, 33, 64 }, ll[] = { 0, 5, 100 };
                for (int t = 0; t < 3; t++) for (int a = 0; a < 5; a++) for (int l = 0; l < (s->kind == 10 ? 3 : 1); l++) {
                        if (s->kind == 13 && a > 0) continue;
                        if (s->kind == 11 && t > 0) continue;
                        entrycall_taglen = tl[t]; entrycall_aadlen = al_[a]; entrycall_len = (int) ll[l];
                        entrycall_trace = 1; call_entry(s, p, 99 + (uint64_t) (t * 16 + a * 3 + l)); entrycall_trace = 0;
                }
                entrycall_taglen = 16; entrycall_aadlen = 20;
        }
        entrycall_len = -1;
}

static void mode_trace(void)
{
        struct sigaction sa; memset(&sa, 0, sizeof sa);
        sa.sa_sigaction = on_trap; sa.sa_flags = SA_SIGINFO | SA_NODEFER; sigemptyset(&sa.sa_mask);
        sigaction(SIGTRAP, &sa, NULL);
        /* library text range: from the lowest to the highest library symbol named in the object map is overkill; use all text of the
         * binary and let the driver keep only instructions that belong to library symbols */
        lib_lo = 0x400000; lib_hi = (uintptr_t) sym_addr("_end"); if (!lib_hi) lib_hi = 0x7fffffff;
        const char *outp = arg_str("--trace-out", NULL);
        if (!outp) out_err("--trace-out required");
        FILE *fo = fopen(outp, "w");
        priv_t *p = priv_new();
        int nparts = (int) arg_int("--nparts", 1), part = (int) arg_int("--part", 0);
        /* every family any configuration can bind: walk the named configurations (they cover each resolver's targets);
         * a target is traced once */
        void *seen[64]; int nseen;
        for (int ei = 0; ei < nS; ei++) {
                if (ei % nparts != part) continue;
                if (S[ei].kind == 0 || S[ei].kind == 2) continue;       /* traced together with the submit entry */
                nseen = 0;
                for (int vi = 0; vcpu_names[vi]; vi++) {
                        force_vcpu(vcpu_names[vi]);
                        /* resolve first without tracing to learn the target */
                        entrycall_len = 64; call_entry(&S[ei], p, 1); entrycall_len = -1;
                        void *target = disp_target_of(S[ei].entry);
                        int dup = 0; for (int k = 0; k < nseen; k++) if (seen[k] == target) dup = 1;
                        if (dup) continue;
                        if (nseen < 64) seen[nseen++] = target;
                        const char *tn_ = sym_name(target);
                        tn = 0; if (tset) memset(tset, 0, tcap * 8); tsteps = 0;
                        LABEL("tracing %s under %s", tn_, vcpu_names[vi]);
                        trace_workload(&S[ei], p);
                        cur_label[0] = 0;
                        /* the hash workload runs the dispatched init/submit/flush trio: its instruction set is recorded for all three targets */
                        for (int tri = 0; tri < (S[ei].kind == 1 ? 3 : 1); tri++) {
                                const sentry_t *se = S[ei].kind == 1 ? &S[ei - 1 + tri] : &S[ei];
                                fprintf(fo, "T %s %s %s\n", sym_name(se->entry), sym_name(disp_target_of(se->entry)), vcpu_names[vi]);
                                for (size_t k = 0; k < tcap; k++) if (tset[k]) fprintf(fo, "A %llx\n", (unsigned long long) tset[k]);
                        }
                        clog_on = 1;
                        clog_title("single-step (trap flag) traces of the functions each dispatched entry binds under the named virtual CPUs; the distinct instruction addresses are later disassembled and classified by ISA extension");
                        clog_event("%s bound to %s under %s: %llu single steps inside the library, %llu distinct instruction addresses", sym_name(S[ei].entry), tn_, vcpu_names[vi], (unsigned long long) tsteps, (unsigned long long) tn);
                        clog_on = 0;
                        out_count("traced_runs", 1); out_count("trace_steps", tsteps); out_count("trace_distinct_instructions", tn);
                        feat(mix64(0x7ace, (uint64_t) (uintptr_t) target));
                }
        }
        fclose(fo);
        vcpu_set("host");
}

/* ================================================================== observe */
/* while an entry's resolver is asking CPUID/XGETBV, its slot must still hold the resolver stub: a value stored before the
 * decision is final is a binding other threads can already take (and it may name code this configuration cannot run) */
static void *watch_entry; static void *watch_seen; static int watch_hits; static char watch_name[128];
static void on_cpu_query(void *resolver_pc)
{
        if (!watch_entry) return;
        long off; const char *who = sym_containing(resolver_pc, &off);
        if (strcmp(who, watch_name)) return;            /* some other entry's resolver (called by the workload) */
        if (disp_is_resolved(watch_entry)) { if (!watch_seen) watch_seen = disp_target_of(watch_entry); watch_hits++; }
}

static void mode_observe(int thorough)
{
        load_reqs(arg_str("--req", "/nonexistent"));
        isal_verif_hook_cb = on_cpu_query;
        enumerate(thorough);
        priv_t *p = priv_new();
        uint64_t refres[80]; int have_ref[80] = { 0 };
        char rb[700], cs[500], key[260];
        uint64_t nparts = (uint64_t) arg_int("--nparts", 1), part = (uint64_t) arg_int("--part", 0);
        /* reference results on the host configuration */
        vcpu_set("host"); disp_rearm_all();
        for (int ei = 0; ei < nS; ei++) { refres[ei] = call_entry(&S[ei], p, 42); have_ref[ei] = 1; }
        for (size_t ci = 0; ci < ncfg; ci++) {
                if (ci % nparts != part) continue;
                const cfg_t *c = &cfgs[ci];
                install(c);
                disp_rearm_all();
                uint32_t avail = available(c);
                cfg_str(c, cs, sizeof cs);
                snprintf(rb, sizeof rb, "{\"engine\":\"dispatch\",\"config_bits\":\"%08x\",\"config\":\"%s\"}", cfg_bits(c), cs);
                snprintf(cur_replay, sizeof cur_replay, "{\"engine\":\"dispatch\",\"config_bits\":\"%08x\"}", cfg_bits(c));
                const char *gfam[400] = { 0 }; const char *gent[400] = { 0 };
                uint64_t bindvec = 0;
                static int nproc;
                clog_on = (nproc++ == 7);       /* evidence: the eighth configuration of this worker, written out */
                clog_title("virtual CPU %s (bits %08x): every dispatch slot re-armed, each entry called once, slot read back; instruction profile of the bound function compared with what this CPU can execute", cs, cfg_bits(c));
                for (int ei = 0; ei < nS; ei++) {
                        const sentry_t *s = &S[ei];
                        /* AES entry points document "requires SSE4.1 and AESNI": not evaluated below that floor */
                        int is_aes = s->kind >= 10 && s->kind <= 41;
                        if (is_aes && !c->sse41) continue;
                        uint64_t x0 = isal_verif_vcpu.n_xgetbv_no_osxsave;
                        LABEL("%s under config %08x", sym_name(s->entry), cfg_bits(c));
                        watch_entry = s->entry; watch_seen = NULL; watch_hits = 0; snprintf(watch_name, sizeof watch_name, "%s_dispatch_init", sym_name(s->entry));
                        uint64_t res = call_entry(s, p, 42);
                        watch_entry = NULL;
                        cur_label[0] = 0;
                        if (watch_seen) {
                                const char *wn = sym_name(watch_seen); uint32_t wneed = 0; int known = req_of(wn, &wneed);
                                snprintf(key, sizeof key, "transient-binding %s", sym_name(s->entry));
                                out_viol("C12", key, rb, "%s: while its resolver was still querying the CPU the slot already held %s%s (final binding %s); a concurrent first caller would run it | %s", sym_name(s->entry), wn,
                                         known && (wneed & ~available(c)) ? ", which this configuration cannot execute" : "", sym_name(disp_target_of(s->entry)), cs);
                        }
                        out_count("bindings_observed", 1);
                        void *target = disp_target_of(s->entry);
                        const char *tn_ = sym_name(target), *en = sym_name(s->entry);
                        bindvec = mix64(bindvec, (uint64_t) (uintptr_t) target);
                        clog_event("%s bound to %s", en, tn_);
                        if (isal_verif_vcpu.n_xgetbv_no_osxsave != x0) { snprintf(key, sizeof key, "xgetbv-without-osxsave %s", en); out_viol("C12", key, rb, "resolver of %s executed XGETBV although CPUID.1:ECX.OSXSAVE is 0 (it would raise #UD) | %s", en, cs); }
                        uint32_t need;
                        if (!req_of(tn_, &need)) { snprintf(key, sizeof key, "unknown-target %s", en); out_viol("C12", key, rb, "%s bound to %s, which no traced configuration ever bound (no instruction profile)", en, tn_); continue; }
                        uint32_t miss = need & ~avail;
                        if (miss) {
                                char ms[300]; size_t o = 0; ms[0] = 0;
                                for (int b = 0; b < F_NFEAT; b++) if (miss >> b & 1) o += (size_t) snprintf(ms + o, sizeof ms - o, "%s ", feat_name[b]);
                                int fb = __builtin_ctz(miss);
                                snprintf(key, sizeof key, "exec-unavailable %s -> %s needs %s", en, family_of(tn_), feat_name[fb]);
                                out_viol("C12", key, rb, "%s binds %s, whose traced execution uses %sinstructions, not available in: %s", en, tn_, ms, cs);
                        }
                        if (have_ref[ei] && res != refres[ei]) { snprintf(key, sizeof key, "smoke %s -> %s", en, family_of(tn_)); out_viol("C12", key, rb, "%s bound to %s produced a different result than on the host configuration | %s", en, tn_, cs); }
                        int g = group_of(s);
                        if (g >= 0) {
                                const char *fam = family_of(tn_);
                                if (gfam[g] && strcmp(gfam[g], fam)) { snprintf(key, sizeof key, "mixed-families %s/%s", gent[g], en); out_viol("C12", key, rb, "entries of one object bind to different families: %s -> %s but %s -> %s | %s", gent[g], gfam[g], en, fam, cs); }
                                else if (!gfam[g]) { gfam[g] = fam; gent[g] = en; }
                        }
                }
                /* a binding, once made, does not change: present a very different machine and call again */
                {
                        cfg_t other; memset(&other, 0, sizeof other);
                        if (!c->avx2) { other.sse41 = other.sse42 = other.osxsave = other.avx = other.avx2 = other.f = other.dq = other.cd = other.bw = other.vl = other.sha = other.vbmi2 = other.gfni = other.vaes = other.vpclmul = other.vnni = other.bitalg = other.vpopcnt = other.x_sse = other.x_avx = other.x_zmm = 1; }
                        void *before[80]; for (int ei = 0; ei < nS; ei++) before[ei] = disp_target_of(S[ei].entry);
                        install(&other);
                        uint64_t n0 = isal_verif_vcpu.n_cpuid;
                        int ei = (int) (ci % (size_t) nS);
                        if (disp_is_resolved(S[ei].entry)) {
                                call_entry(&S[ei], p, 42);
                                out_count("rebinding_probes", 1);
                                for (int k = 0; k < nS; k++) if (disp_target_of(S[k].entry) != before[k] && before[k] != NULL && disp_is_resolved(S[k].entry) && k == ei) { snprintf(key, sizeof key, "rebinding %s", sym_name(S[k].entry)); out_viol("C12", key, rb, "%s changed its binding on a later call under another configuration", sym_name(S[k].entry)); }
                                if (isal_verif_vcpu.n_cpuid != n0 && S[ei].kind > 2 && S[ei].kind != 12 && S[ei].kind != 13) { snprintf(key, sizeof key, "resolver-reran %s", sym_name(S[ei].entry)); out_viol("C12", key, rb, "a second call of %s queried CPUID again", sym_name(S[ei].entry)); }
                        }
                }
                clog_on = 0;
                out_count("configurations", 1);
                feat(mix64(0xc0f, bindvec));
                feat(mix64(0xc0e, cfg_bits(c)));
        }
        out_max("configuration_space", ncfg);
        vcpu_set("host");
}

int main(int argc, char **argv)
{
        out_init(argc, argv);
        if (ref_selfcheck()) out_err("reference oracle self-check failed");
        build_entries();
        if (nS != isal_dispatch_n) out_err("the build has %d dispatched entries, the harness describes %d", isal_dispatch_n, nS);
        for (int i = 0; i < isal_dispatch_n; i++) { int f = 0; for (int k = 0; k < nS; k++) if (S[k].entry == isal_dispatch_entries[i].entry) f = 1; if (!f) out_err("dispatched entry %s has no call descriptor", isal_dispatch_entries[i].name); }
        const char *m = arg_str("--mode", "observe");
        int thorough = !strcmp(arg_str("--tier", "quick"), "thorough");
        if (!strcmp(m, "trace")) mode_trace(); else mode_observe(thorough);
        if (isal_verif_vcpu.n_cpuid == 0) out_err("the virtual CPUID hook was never reached");
        out_sample("{\"engine\":\"dispatch\",\"mode\":\"%s\",\"virtual_cpuid_calls\":%llu,\"virtual_xgetbv_calls\":%llu}", m, (unsigned long long) isal_verif_vcpu.n_cpuid, (unsigned long long) isal_verif_vcpu.n_xgetbv);
        out_finish();
        return viol_count() ? 1 : 0;
}
