#include "common.h"
#include <stdarg.h>
#include <unistd.h>
#include <pthread.h>
#include <sys/mman.h>
#include <ucontext.h>
#include <errno.h>

/* ---------------- rng ---------------- */
uint64_t mix64(uint64_t a, uint64_t b)
{
        uint64_t z = a + 0x9e3779b97f4a7c15ULL * (b + 1);
        z = (z ^ (z >> 30)) * 0xbf58476d1ce4e5b9ULL;
        z = (z ^ (z >> 27)) * 0x94d049bb133111ebULL;
        return z ^ (z >> 31);
}
void rng_seed(rng_t *r, uint64_t seed)
{
        for (int i = 0; i < 4; i++) r->s[i] = mix64(seed, (uint64_t) i + 0x1234);
        if (!(r->s[0] | r->s[1] | r->s[2] | r->s[3])) r->s[0] = 1;
}
static inline uint64_t rotl(uint64_t x, int k) { return (x << k) | (x >> (64 - k)); }
uint64_t rng_u64(rng_t *r)
{
        uint64_t *s = r->s, res = rotl(s[1] * 5, 7) * 9, t = s[1] << 17;
        s[2] ^= s[0]; s[3] ^= s[1]; s[1] ^= s[2]; s[0] ^= s[3]; s[2] ^= t; s[3] = rotl(s[3], 45);
        return res;
}
uint32_t rng_below(rng_t *r, uint32_t n) { return (uint32_t) (((rng_u64(r) >> 32) * (uint64_t) n) >> 32); }
void rng_fill(rng_t *r, void *p, size_t n)
{
        uint8_t *b = p;
        while (n >= 8) { uint64_t v = rng_u64(r); memcpy(b, &v, 8); b += 8; n -= 8; }
        if (n) { uint64_t v = rng_u64(r); memcpy(b, &v, n); }
}

/* ---------------- args / output ---------------- */
uint64_t g_seed = 1, g_from = 0, g_count = 0;
int g_noarch;
const char *g_prop = "C00";
static int g_argc; static char **g_argv;
static const char *g_featout;
static pthread_mutex_t out_mu = PTHREAD_MUTEX_INITIALIZER;
__thread char cur_label[320];
__thread const char *cur_prop;
__thread char cur_replay[512];
static volatile int n_viol;

const char *arg_str(const char *name, const char *def)
{
        for (int i = 1; i + 1 < g_argc; i++) if (!strcmp(g_argv[i], name)) return g_argv[i + 1];
        return def;
}
long long arg_int(const char *name, long long def)
{
        const char *s = arg_str(name, NULL);
        return s ? strtoll(s, NULL, 0) : def;
}
int arg_flag(const char *name)
{
        for (int i = 1; i < g_argc; i++) if (!strcmp(g_argv[i], name)) return 1;
        return 0;
}

#define MAXC 512
static struct { char name[96]; uint64_t v; int is_max; } ctr[MAXC];
static int nctr;
static void ctr_upd(const char *name, uint64_t v, int is_max)
{
        pthread_mutex_lock(&out_mu);
        int i;
        for (i = 0; i < nctr; i++) if (!strcmp(ctr[i].name, name)) break;
        if (i == nctr) {
                if (nctr == MAXC) { pthread_mutex_unlock(&out_mu); return; }
                snprintf(ctr[i].name, sizeof ctr[i].name, "%s", name); ctr[i].v = 0; ctr[i].is_max = is_max; nctr++;
        }
        if (is_max) { if (v > ctr[i].v) ctr[i].v = v; } else ctr[i].v += v;
        pthread_mutex_unlock(&out_mu);
}
void out_count(const char *name, uint64_t n) { ctr_upd(name, n, 0); }
void out_max(const char *name, uint64_t v) { ctr_upd(name, v, 1); }

/* JSON string into a buffer (no stdio, no allocation): for the crash handler */
static size_t json_esc(char *dst, size_t n, const char *s)
{
        size_t o = 0;
        if (n < 8) return 0;
        dst[o++] = '"';
        for (; *s && o + 8 < n; s++) {
                unsigned char c = (unsigned char) *s;
                if (c == '"' || c == '\\') { dst[o++] = '\\'; dst[o++] = (char) c; }
                else if (c < 0x20) o += (size_t) snprintf(dst + o, n - o, "\\u%04x", c);
                else dst[o++] = (char) c;
        }
        dst[o++] = '"';
        return o;
}
static void json_str(FILE *f, const char *s)
{
        fputc('"', f);
        for (; *s; s++) {
                unsigned char c = (unsigned char) *s;
                if (c == '"' || c == '\\') { fputc('\\', f); fputc(c, f); }
                else if (c < 0x20) fprintf(f, "\\u%04x", c);
                else fputc(c, f);
        }
        fputc('"', f);
}
int viol_count(void) { return n_viol; }
void out_viol(const char *prop, const char *key, const char *replay_json, const char *fmt, ...)
{
        char msg[1500];
        va_list ap; va_start(ap, fmt); vsnprintf(msg, sizeof msg, fmt, ap); va_end(ap);
        pthread_mutex_lock(&out_mu);
        n_viol++;
        /* print each distinct key at most twice, at most 600 distinct keys */
        static uint64_t seen[1024]; static uint8_t cnt[1024]; static int nseen;
        uint64_t kh = 1469598103934665603ULL; for (const char *q = key; *q; q++) kh = (kh ^ (uint8_t) *q) * 1099511628211ULL;
        int i, show = 0;
        for (i = 0; i < nseen; i++) if (seen[i] == kh) break;
        if (i == nseen) { if (nseen < 600) { seen[nseen] = kh; cnt[nseen] = 1; nseen++; show = 1; } }
        else if (cnt[i] < 2) { cnt[i]++; show = 1; }
        if (show) {
                fputs("{\"t\":\"viol\",\"prop\":", stdout); json_str(stdout, prop);
                fputs(",\"key\":", stdout); json_str(stdout, key);
                fputs(",\"msg\":", stdout); json_str(stdout, msg);
                fprintf(stdout, ",\"replay\":%s}\n", (replay_json && *replay_json) ? replay_json : "null");
                fflush(stdout);
        }
        pthread_mutex_unlock(&out_mu);
}
int label_rec_n, clog_on;
static char label_recs[16][200];
#define CLOG_MAX 48
static char clog_ev[CLOG_MAX][240], clog_ttl[300]; static int clog_n;
void label_rec(void)
{
        pthread_mutex_lock(&out_mu);
        if (label_rec_n < 16) { snprintf(label_recs[label_rec_n], sizeof label_recs[0], "%s", cur_label); label_rec_n++; }
        pthread_mutex_unlock(&out_mu);
}
void clog_title(const char *fmt, ...)
{
        if (!clog_on || clog_ttl[0]) return;
        va_list ap; va_start(ap, fmt); vsnprintf(clog_ttl, sizeof clog_ttl, fmt, ap); va_end(ap);
}
void clog_event(const char *fmt, ...)
{
        if (!clog_on) return;
        pthread_mutex_lock(&out_mu);
        if (clog_n < CLOG_MAX) { va_list ap; va_start(ap, fmt); vsnprintf(clog_ev[clog_n], sizeof clog_ev[0], fmt, ap); va_end(ap); clog_n++; }
        pthread_mutex_unlock(&out_mu);
}
static int n_samples;
void out_sample(const char *fmt, ...)
{
        char msg[3000];
        va_list ap; va_start(ap, fmt); vsnprintf(msg, sizeof msg, fmt, ap); va_end(ap);
        pthread_mutex_lock(&out_mu);
        if (n_samples++ < 8) { printf("{\"t\":\"sample\",\"v\":%s}\n", msg); fflush(stdout); }
        pthread_mutex_unlock(&out_mu);
}
void out_note(const char *fmt, ...)
{
        char msg[1500];
        va_list ap; va_start(ap, fmt); vsnprintf(msg, sizeof msg, fmt, ap); va_end(ap);
        pthread_mutex_lock(&out_mu);
        fputs("{\"t\":\"note\",\"msg\":", stdout); json_str(stdout, msg); fputs("}\n", stdout); fflush(stdout);
        pthread_mutex_unlock(&out_mu);
}
void out_err(const char *fmt, ...)
{
        char msg[1500];
        va_list ap; va_start(ap, fmt); vsnprintf(msg, sizeof msg, fmt, ap); va_end(ap);
        fputs("{\"t\":\"err\",\"msg\":", stdout); json_str(stdout, msg); fputs("}\n", stdout); fflush(stdout);
        _exit(2);
}
void hex(char *dst, const void *src, size_t n)
{
        static const char d[] = "0123456789abcdef";
        const uint8_t *s = src;
        for (size_t i = 0; i < n; i++) { dst[2 * i] = d[s[i] >> 4]; dst[2 * i + 1] = d[s[i] & 15]; }
        dst[2 * n] = 0;
}

/* distinct-feature set: open addressing */
static uint64_t *fset; static size_t fcap, fn;
void feat(uint64_t h)
{
        if (!h) h = 1;
        pthread_mutex_lock(&out_mu);
        if (fn * 2 >= fcap) {
                size_t nc = fcap ? fcap * 2 : 1 << 14;
                uint64_t *ns = calloc(nc, 8);
                for (size_t i = 0; i < fcap; i++) if (fset[i]) { size_t j = fset[i] & (nc - 1); while (ns[j]) j = (j + 1) & (nc - 1); ns[j] = fset[i]; }
                free(fset); fset = ns; fcap = nc;
        }
        size_t j = h & (fcap - 1);
        while (fset[j] && fset[j] != h) j = (j + 1) & (fcap - 1);
        if (!fset[j]) { fset[j] = h; fn++; }
        pthread_mutex_unlock(&out_mu);
}
void out_finish(void)
{
        if (arg_int("--static-watch", 0)) { static_watch_check(g_prop, "at the end of this engine's workload"); out_count("static_watch_sections_compared", (uint64_t) static_watch_init()); }
        pthread_mutex_lock(&out_mu);
        for (int i = 0; i < nctr; i++) {
                printf("{\"t\":\"%s\",\"name\":", ctr[i].is_max ? "max" : "count"); json_str(stdout, ctr[i].name);
                printf(",\"n\":%llu}\n", (unsigned long long) ctr[i].v);
        }
        if (clog_n) {
                fputs("{\"t\":\"sample\",\"v\":{\"observed_case\":", stdout); json_str(stdout, clog_ttl);
                fputs(",\"events\":[", stdout);
                for (int i = 0; i < clog_n; i++) { if (i) fputc(',', stdout); json_str(stdout, clog_ev[i]); }
                fputs("]}}\n", stdout);
        }
        if (label_rec_n) {
                fputs("{\"t\":\"sample\",\"v\":{\"first_monitored_calls\":[", stdout);
                for (int i = 0; i < label_rec_n; i++) { if (i) fputc(',', stdout); json_str(stdout, label_recs[i]); }
                fputs("]}}\n", stdout);
        }
        if (g_featout) {
                FILE *f = fopen(g_featout, "wb");
                if (f) { for (size_t i = 0; i < fcap; i++) if (fset[i]) fwrite(&fset[i], 8, 1, f); fclose(f); }
        }
        printf("{\"t\":\"done\",\"features\":%zu,\"viol\":%d}\n", fn, n_viol);
        fflush(stdout);
        pthread_mutex_unlock(&out_mu);
}

/* ---------------- faults ---------------- */
__thread sigjmp_buf fault_jmp;
__thread volatile int fault_armed;
__thread fault_t fault_last;
static void on_fault(int sig, siginfo_t *si, void *uc_)
{
        ucontext_t *uc = uc_;
        if (fault_armed) {
                fault_last.addr = si->si_addr;
                fault_last.sig = sig;
                fault_last.is_write = (sig == SIGSEGV || sig == SIGBUS) ? (int) ((uc->uc_mcontext.gregs[REG_ERR] >> 1) & 1) : 0;
                fault_last.pc = (void *) uc->uc_mcontext.gregs[REG_RIP];
                fault_armed = 0;
                siglongjmp(fault_jmp, 1);
        }
        /* died inside (or because of) a library call that no monitor was prepared for. The report is built in static storage and written with
         * write(2): the heap may be what was destroyed (stdio would call malloc), and a second fault in here must end the process at once */
        static volatile int in_crash;
        if (__atomic_exchange_n(&in_crash, 1, __ATOMIC_SEQ_CST)) _exit(cur_label[0] ? 3 : 2);
        static char line[2600];
        char key[400], msg[600];
        const char *sn = sig == SIGSEGV ? "SIGSEGV" : sig == SIGBUS ? "SIGBUS" : sig == SIGILL ? "SIGILL" : sig == SIGFPE ? "SIGFPE" : "SIGABRT";
        snprintf(key, sizeof key, "crash %s %s", sn, cur_label[0] ? cur_label : "(no label)");
        snprintf(msg, sizeof msg, "process received %s at pc=%p addr=%p during: %s", sn, (void *) uc->uc_mcontext.gregs[REG_RIP], si->si_addr, cur_label);
        size_t o = 0;
        if (cur_label[0]) {
                o += (size_t) snprintf(line + o, sizeof line - o, "\n{\"t\":\"viol\",\"prop\":\"%s\",\"key\":", cur_prop ? cur_prop : g_prop);
                o += json_esc(line + o, sizeof line - o, key); o += (size_t) snprintf(line + o, sizeof line - o, ",\"msg\":"); o += json_esc(line + o, sizeof line - o, msg);
                o += (size_t) snprintf(line + o, sizeof line - o, ",\"replay\":%s}\n", cur_replay[0] ? cur_replay : "null");
        } else {
                o += (size_t) snprintf(line + o, sizeof line - o, "\n{\"t\":\"err\",\"msg\":"); o += json_esc(line + o, sizeof line - o, msg); o += (size_t) snprintf(line + o, sizeof line - o, "}\n");
        }
        fflush(stdout);         /* earlier complete lines; writes the existing buffer, no allocation */
        if (write(1, line, o) < 0) _exit(2);
        _exit(cur_label[0] ? 3 : 2);
}
static void on_alarm(int sig)
{
        (void) sig;
        char key[400];
        if (cur_label[0]) {
                /* strip volatile numbers so the key names the call, not the instance */
                snprintf(key, sizeof key, "hang %s", cur_label);
                printf("{\"t\":\"viol\",\"prop\":\"%s\",\"key\":", cur_prop ? cur_prop : g_prop);
                json_str(stdout, key); fputs(",\"msg\":", stdout); json_str(stdout, "watchdog fired while this library call was in progress");
                printf(",\"replay\":%s}\n", cur_replay[0] ? cur_replay : "null");
        } else {
                fputs("{\"t\":\"err\",\"msg\":\"watchdog fired outside any library call (inconclusive)\"}\n", stdout);
        }
        fflush(stdout);
        _exit(4);
}
static uint8_t altstack[1 << 16];
void fault_install(void)
{
        stack_t ss = { .ss_sp = altstack, .ss_size = sizeof altstack, .ss_flags = 0 };
        sigaltstack(&ss, NULL);
        struct sigaction sa;
        memset(&sa, 0, sizeof sa);
        sa.sa_sigaction = on_fault;
        sa.sa_flags = SA_SIGINFO | SA_NODEFER | SA_ONSTACK;
        sigemptyset(&sa.sa_mask);
        sigaction(SIGSEGV, &sa, NULL); sigaction(SIGBUS, &sa, NULL); sigaction(SIGILL, &sa, NULL);
        sigaction(SIGFPE, &sa, NULL); sigaction(SIGABRT, &sa, NULL);
}

/* sanitizer reports: name the case that was running */
void __asan_on_error(void);
void __asan_on_error(void)
{
        char key[400];
        snprintf(key, sizeof key, "asan %s", cur_label[0] ? cur_label : "(no label)");
        printf("{\"t\":\"viol\",\"prop\":\"%s\",\"key\":", cur_prop ? cur_prop : g_prop);
        json_str(stdout, key); fputs(",\"msg\":", stdout); json_str(stdout, "AddressSanitizer report (see stderr) during this call");
        printf(",\"replay\":%s}\n", cur_replay[0] ? cur_replay : "null");
        fflush(stdout);
}

/* ---------------- instruction coverage of the library's text (VERIF_ASMCOV=<dir>, tools/asmcov.py) ----------------
 * Measurement only, never a verdict: every instruction of the library objects (addresses from <exe>.insn) gets a one-shot int3; the
 * SIGTRAP handler puts the original byte back, marks the instruction as executed in a MAP_SHARED file (survives a killed worker) and
 * re-executes it. Each instruction traps at most once per process. Not for the sanitizer builds and not for the engines that own
 * SIGTRAP themselves (dispatch tracer, fipssched). */
#if !defined(VERIF_ASAN) && !defined(VERIF_TSAN)
#include <sys/mman.h>
#include <fcntl.h>
#include <unistd.h>
static uint64_t *cov_addr;
static uint8_t *cov_orig, *cov_hits;
static size_t cov_n;
static void on_trap_cov(int sig, siginfo_t *si, void *uc_)
{
        (void) si;
        ucontext_t *uc = uc_;
        uint64_t pc = (uint64_t) uc->uc_mcontext.gregs[REG_RIP] - 1;
        size_t lo = 0, hi = cov_n;
        while (lo < hi) { size_t mid = (lo + hi) / 2; if (cov_addr[mid] < pc) lo = mid + 1; else hi = mid; }
        if (lo < cov_n && cov_addr[lo] == pc) {
                *(volatile uint8_t *) (uintptr_t) pc = cov_orig[lo];
                cov_hits[lo] = 1;
                uc->uc_mcontext.gregs[REG_RIP] = (greg_t) pc;
                return;
        }
        signal(sig, SIG_DFL);   /* not ours: let it happen again with the default action */
}
static void asmcov_init(const char *argv0)
{
        const char *dir = getenv("VERIF_ASMCOV");
        if (!dir || !dir[0]) return;
        char path[1024];
        snprintf(path, sizeof path, "%s.insn", argv0);
        int fd = open(path, O_RDONLY);
        if (fd < 0) return;
        off_t sz = lseek(fd, 0, SEEK_END);
        cov_n = (size_t) sz / 8;
        if (!cov_n) { close(fd); return; }
        cov_addr = mmap(NULL, (size_t) sz, PROT_READ, MAP_PRIVATE, fd, 0);
        close(fd);
        const char *b = strrchr(argv0, '/'); b = b ? b + 1 : argv0;
        snprintf(path, sizeof path, "%s/%s.%d.hits", dir, b, (int) getpid());
        fd = open(path, O_RDWR | O_CREAT | O_TRUNC, 0644);
        if (fd < 0 || ftruncate(fd, (off_t) cov_n) < 0 || cov_addr == MAP_FAILED) { cov_n = 0; return; }
        cov_hits = mmap(NULL, cov_n, PROT_READ | PROT_WRITE, MAP_SHARED, fd, 0);
        close(fd);
        cov_orig = malloc(cov_n);
        if (cov_hits == MAP_FAILED || !cov_orig) { cov_n = 0; return; }
        uintptr_t lo = cov_addr[0] & ~4095UL, hi = (cov_addr[cov_n - 1] + 4096) & ~4095UL;
        if (mprotect((void *) lo, hi - lo, PROT_READ | PROT_WRITE | PROT_EXEC)) { cov_n = 0; return; }
        struct sigaction sa;
        memset(&sa, 0, sizeof sa);
        sa.sa_sigaction = on_trap_cov;
        sa.sa_flags = SA_SIGINFO | SA_ONSTACK;
        sigemptyset(&sa.sa_mask);
        sigaction(SIGTRAP, &sa, NULL);
        for (size_t i = 0; i < cov_n; i++) { uint8_t *p = (uint8_t *) (uintptr_t) cov_addr[i]; cov_orig[i] = *p; *p = 0xCC; }
}
#else
static void asmcov_init(const char *argv0) { (void) argv0; }
#endif

void out_init(int argc, char **argv)
{
        g_argc = argc; g_argv = argv;
        g_seed = (uint64_t) arg_int("--seed", 1);
        g_from = (uint64_t) arg_int("--from", 0);
        g_noarch = (int) arg_int("--noarch", 0);
        g_count = (uint64_t) arg_int("--count", 100);
        g_prop = arg_str("--prop", "C00");
        g_featout = arg_str("--feat-out", NULL);
        setvbuf(stdout, NULL, _IOLBF, 0);
        fault_install();
        asmcov_init(argv[0]);
        if (arg_int("--static-watch", 0)) { if (!static_watch_init()) out_err("static-storage watch: section list missing"); }
        signal(SIGALRM, on_alarm);
        alarm((unsigned) arg_int("--watchdog", 600));
}

/* ---------------- guarded memory ---------------- */
#define PG 4096UL
uint8_t *galloc(gbuf_t *g, size_t size, size_t align, int placement, unsigned misalign)
{
        if (align == 0) align = 1;
        size_t body = ((size + misalign + align + PG - 1) / PG + 1) * PG;
        size_t maplen = body + 2 * PG;
        uint8_t *m = mmap(NULL, maplen, PROT_NONE, MAP_PRIVATE | MAP_ANONYMOUS, -1, 0);
        if (m == MAP_FAILED) out_err("galloc: mmap failed: %s", strerror(errno));
        if (mprotect(m + PG, body, PROT_READ | PROT_WRITE)) out_err("galloc: mprotect failed");
        g->map = m; g->maplen = maplen; g->body = m + PG; g->bodylen = body; g->size = size; g->placement = placement;
        g->canary = 0xC5;
        memset(g->body, g->canary, body);
        uint8_t *p;
        if (placement == G_END) {
                uintptr_t e = (uintptr_t) (g->body + body) - size;
                e &= ~(uintptr_t) (align - 1);
                p = (uint8_t *) e;
        } else if (placement == G_START) {
                p = g->body;
        } else {
                uintptr_t s = (uintptr_t) g->body + 64;
                s = (s + align - 1) & ~(uintptr_t) (align - 1);
                p = (uint8_t *) s + misalign;
        }
        g->p = p;
        return p;
}
void gprot(gbuf_t *g, int readonly)
{
        mprotect(g->body, g->bodylen, readonly ? PROT_READ : (PROT_READ | PROT_WRITE));
}
int gcanary_ok(const gbuf_t *g, long *where)
{
        for (uint8_t *q = g->body; q < g->p; q++) if (*q != g->canary) { if (where) *where = (long) (q - g->p); return 0; }
        for (uint8_t *q = g->p + g->size; q < g->body + g->bodylen; q++) if (*q != g->canary) { if (where) *where = (long) (q - g->p); return 0; }
        return 1;
}
void gfree(gbuf_t *g) { if (g->map) munmap(g->map, g->maplen); g->map = NULL; }
#ifndef MAP_FIXED_NOREPLACE
#define MAP_FIXED_NOREPLACE 0x100000
#endif
uint8_t *straddle_map(size_t half)
{
        static int next;
#if defined(VERIF_TSAN) || defined(VERIF_ASAN)
        return NULL;    /* the sanitizer runtimes own the layout of the address space (TSan aborts on a fixed mapping outside its application ranges) */
#endif
        half = (half + PG - 1) & ~(size_t) (PG - 1);
        for (int tries = 0; tries < 8; tries++) {
                uint64_t k = 0x20 + (uint64_t) __atomic_fetch_add(&next, 1, __ATOMIC_RELAXED);
                if (k >= 0x6000) return NULL;
                uint8_t *want = (uint8_t *) (uintptr_t) ((k << 32) - half);
                uint8_t *m = mmap(want, 2 * half, PROT_READ | PROT_WRITE, MAP_PRIVATE | MAP_ANONYMOUS | MAP_FIXED_NOREPLACE, -1, 0);
                if (m == want) { out_count("straddle_regions_mapped", 1); return m; }
                if (m != MAP_FAILED) munmap(m, 2 * half);
        }
        return NULL;
}
static uint8_t *none_lo; static size_t none_len;
void *gnone_ptr(void)
{
        if (!none_lo) {
                none_len = 64 * PG;
                none_lo = mmap(NULL, none_len, PROT_NONE, MAP_PRIVATE | MAP_ANONYMOUS, -1, 0);
                if (none_lo == MAP_FAILED) out_err("gnone: mmap failed");
        }
        return none_lo + none_len / 2;
}
size_t gnone_range(uint8_t **lo) { gnone_ptr(); *lo = none_lo; return none_len; }

/* ---------------- virtual CPU ---------------- */
struct vcpu isal_verif_vcpu;
#define B(n) (1u << (n))
#define L1_LEGACY (B(0) | B(1) | B(9) | B(13) | B(22) | B(23) | B(25))  /* SSE3 PCLMUL SSSE3 CX16 MOVBE POPCNT AESNI */
#define L1_SSE4 (B(19) | B(20))
#define L1_AVX (B(26) | B(27) | B(28) | B(12))                          /* XSAVE OSXSAVE AVX FMA */
#define L7_AVX2 (B(5) | B(3) | B(8))                                    /* AVX2 BMI1 BMI2 */
#define L7_G1 (B(16) | B(17) | B(28) | B(30) | B(31))
#define L7_SHA B(29)
#define L7C_G2 (B(6) | B(8) | B(9) | B(10) | B(11) | B(12) | B(14))
const char *const vcpu_names[] = { "base", "sse", "sse_ni", "avx", "avx2", "avx512", "avx512_g2", "avx512_ni", "avx512_g2_ni", "avoton", NULL };
int vcpu_set(const char *name)
{
        struct vcpu *v = &isal_verif_vcpu;
        uint32_t l1 = 0, l7b = 0, l7c = 0, x = 0, eax = 0x000906ea;
        if (!strcmp(name, "host")) { v->active = 0; return 0; }
        if (!strcmp(name, "base")) l1 = L1_LEGACY;
        else if (!strcmp(name, "sse")) l1 = L1_LEGACY | L1_SSE4;
        else if (!strcmp(name, "sse_ni")) { l1 = L1_LEGACY | L1_SSE4; l7b = L7_SHA; }
        else if (!strcmp(name, "avoton")) { l1 = L1_LEGACY | L1_SSE4; eax = 0x000406d8; }
        else if (!strcmp(name, "avx")) { l1 = L1_LEGACY | L1_SSE4 | L1_AVX; x = 7; }
        else if (!strcmp(name, "avx2")) { l1 = L1_LEGACY | L1_SSE4 | L1_AVX; x = 7; l7b = L7_AVX2; }
        else if (!strcmp(name, "avx512")) { l1 = L1_LEGACY | L1_SSE4 | L1_AVX; x = 0xe7; l7b = L7_AVX2 | L7_G1; }
        else if (!strcmp(name, "avx512_g2")) { l1 = L1_LEGACY | L1_SSE4 | L1_AVX; x = 0xe7; l7b = L7_AVX2 | L7_G1; l7c = L7C_G2; }
        else if (!strcmp(name, "avx512_ni")) { l1 = L1_LEGACY | L1_SSE4 | L1_AVX; x = 0xe7; l7b = L7_AVX2 | L7_G1 | L7_SHA; }
        else if (!strcmp(name, "avx512_g2_ni")) { l1 = L1_LEGACY | L1_SSE4 | L1_AVX; x = 0xe7; l7b = L7_AVX2 | L7_G1 | L7_SHA; l7c = L7C_G2; }
        else return -1;
        v->l1_eax = eax; v->l1_ecx = l1; v->l1_edx = 0x078bfbff; v->l7_ebx = l7b; v->l7_ecx = l7c; v->l7_edx = 0; v->xcr0 = x;
        v->active = 1;
        return 0;
}
void **dispatch_slot(void *entry)
{
        const uint8_t *p = entry;
        if (p[0] == 0xf3 && p[1] == 0x0f && p[2] == 0x1e && p[3] == 0xfa) p += 4;
        if (p[0] != 0xff || p[1] != 0x25) return NULL;
        int32_t d; memcpy(&d, p + 2, 4);
        return (void **) (p + 6 + d);
}
int disp_bind(disp_t *d, void *entry)
{
        d->entry = entry;
        d->slot = dispatch_slot(entry);
        if (!d->slot) return -1;
        /* initial value = <entry>_mbinit: "[endbr64] call <entry>_dispatch_init" placed right before the entry */
        const uint8_t *e = entry;
        if (e[-5] != 0xe8) return -1;
        d->initial = (void *) (e - 5);
        if (e[-9] == 0xf3 && e[-8] == 0x0f && e[-7] == 0x1e && e[-6] == 0xfa) d->initial = (void *) (e - 9);
        const uint8_t *cur = *d->slot;
        if (cur < e && cur >= e - 16 && cur != d->initial) return -2;  /* unresolved but not where we think */
        return 0;
}
void disp_rearm(disp_t *d) { *d->slot = d->initial; }

static disp_t *all_disp;
static void all_disp_init(void)
{
        if (all_disp) return;
        all_disp = calloc((size_t) isal_dispatch_n, sizeof *all_disp);
        for (int i = 0; i < isal_dispatch_n; i++)
                if (disp_bind(&all_disp[i], isal_dispatch_entries[i].entry)) out_err("cannot decode dispatch stub of %s", isal_dispatch_entries[i].name);
}
void disp_rearm_all(void)
{
        all_disp_init();
        for (int i = 0; i < isal_dispatch_n; i++) disp_rearm(&all_disp[i]);
}
void force_vcpu(const char *name)
{
        if (g_noarch) return;
        if (vcpu_set(name)) out_err("unknown virtual cpu %s", name);
        disp_rearm_all();
}
static disp_t *find_disp(void *entry)
{
        all_disp_init();
        for (int i = 0; i < isal_dispatch_n; i++) if (all_disp[i].entry == entry) return &all_disp[i];
        out_err("entry %p is not a dispatched entry point", entry);
}
void *disp_target_of(void *entry) { return disp_target(find_disp(entry)); }
int disp_is_resolved(void *entry) { if (g_noarch) return 0; disp_t *d = find_disp(entry); return *d->slot != d->initial; }

/* ---------------- symbolizer over the nm listing written next to the binary (non-PIE) ---------------- */
static struct symrec { uintptr_t a; char t; char *n; } *syms; static int nsyms = -1;
static void syms_load(void)
{
        if (nsyms >= 0) return;
        nsyms = 0;
        char path[600]; snprintf(path, sizeof path, "%s.syms", g_argv ? g_argv[0] : "");
        FILE *f = fopen(path, "r");
        if (!f) return;
        int cap = 0; char line[600];
        while (fgets(line, sizeof line, f)) {
                unsigned long a; char t; char name[500];
                if (sscanf(line, "%lx %c %499s", &a, &t, name) != 3) continue;
                if (nsyms == cap) { cap = cap ? cap * 2 : 4096; syms = realloc(syms, (size_t) cap * sizeof *syms); }
                syms[nsyms].a = a; syms[nsyms].t = t; syms[nsyms].n = strdup(name); nsyms++;
        }
        fclose(f);
}
const char *sym_containing(const void *addr, long *off)
{
        syms_load();
        int lo = 0, hi = nsyms - 1, best = -1;
        while (lo <= hi) { int mid = (lo + hi) / 2; if (syms[mid].a <= (uintptr_t) addr) { best = mid; lo = mid + 1; } else hi = mid - 1; }
        if (best < 0) { if (off) *off = 0; return "?"; }
        if (off) *off = (long) ((uintptr_t) addr - syms[best].a);
        return syms[best].n;
}
const char *sym_name(const void *addr)
{
        syms_load();
        const char *best = "?";
        for (int i = 0; i < nsyms; i++) {
                if (syms[i].a != (uintptr_t) addr) continue;
                if (syms[i].t != 'T' && syms[i].t != 't' && syms[i].t != 'W' && syms[i].t != 'w') continue;
                if (strstr(syms[i].n, "_slver") || strstr(syms[i].n, "_mbinit")) continue;
                /* prefer global names, and the longest alias */
                if (best[0] == '?' || (syms[i].t == 'T' && strlen(syms[i].n) > strlen(best))) best = syms[i].n;
        }
        return best;
}
void *sym_addr(const char *name)
{
        syms_load();
        for (int i = 0; i < nsyms; i++) if (!strcmp(syms[i].n, name)) return (void *) syms[i].a;
        return NULL;
}

void *sym_addr_prefix(const char *prefix)
{
        syms_load();
        void *found = NULL; size_t n = strlen(prefix);
        for (int i = 0; i < nsyms; i++) if (!strncmp(syms[i].n, prefix, n)) { if (found) return NULL; found = (void *) syms[i].a; }       /* must be unique */
        return found;
}

uintptr_t sym_next_global(uintptr_t a)
{
        syms_load();
        uintptr_t best = 0;
        for (int i = 0; i < nsyms; i++) if (syms[i].a > a && syms[i].t == 'T' && (!best || syms[i].a < best)) best = syms[i].a;
        return best;
}

/* ---------------- static storage watch ---------------- */
typedef struct { uintptr_t a; size_t n; char sec[40], obj[80]; uint8_t *img; } wsec_t;
static wsec_t *wsecs; static int nwsecs = -1;
static struct { uintptr_t a; size_t n; } exempt[80]; static int nexempt;
int static_watch_init(void)
{
        if (nwsecs >= 0) return nwsecs;
        nwsecs = 0;
        char path[600]; snprintf(path, sizeof path, "%s.objmap", g_argv ? g_argv[0] : "");
        FILE *f = fopen(path, "r");
        if (!f) return 0;
        /* writable mappings of this process */
        struct { uintptr_t lo, hi; } wm[256]; int nwm = 0;
        FILE *m = fopen("/proc/self/maps", "r");
        char line[700];
        while (m && fgets(line, sizeof line, m)) { unsigned long lo, hi; char perm[8]; if (sscanf(line, "%lx-%lx %7s", &lo, &hi, perm) == 3 && perm[1] == 'w' && nwm < 256) { wm[nwm].lo = lo; wm[nwm].hi = hi; nwm++; } }
        if (m) fclose(m);
        int cap = 0;
        while (fgets(line, sizeof line, f)) {
                unsigned long a, n; char sec[100], obj[200];
                if (sscanf(line, "%lx %lx %99s %199s", &a, &n, sec, obj) != 4) continue;
                if (!strncmp(sec, ".tbss", 5) || !strncmp(sec, ".tdata", 6)) continue;
                if (!strncmp(sec, ".text", 5)) continue;        /* writable only while the coverage measurement (asmcov) has its int3 bytes in it */
                int w = 0; for (int i = 0; i < nwm; i++) if (a >= wm[i].lo && a + n <= wm[i].hi) w = 1;
                if (!w) continue;
                if (nwsecs == cap) { cap = cap ? cap * 2 : 256; wsecs = realloc(wsecs, (size_t) cap * sizeof *wsecs); }
                wsec_t *s = &wsecs[nwsecs++];
                s->a = a; s->n = n; snprintf(s->sec, sizeof s->sec, "%s", sec); snprintf(s->obj, sizeof s->obj, "%s", obj);
                s->img = malloc(n); memcpy(s->img, (void *) a, n);
        }
        fclose(f);
        for (int i = 0; i < isal_dispatch_n && nexempt < 78; i++) { void **sl = dispatch_slot(isal_dispatch_entries[i].entry); if (sl) { exempt[nexempt].a = (uintptr_t) sl; exempt[nexempt].n = 8; nexempt++; } }
        void *st = sym_addr("self_test_status");
        if (st) { exempt[nexempt].a = (uintptr_t) st; exempt[nexempt].n = 4; nexempt++; }
        return nwsecs;
}
int static_watch_check(const char *prop, const char *when)
{
        int nv = 0;
        for (int i = 0; i < nwsecs; i++) {
                wsec_t *s = &wsecs[i];
                if (!memcmp(s->img, (void *) s->a, s->n)) continue;
                for (size_t o = 0; o < s->n; o++) {
                        if (s->img[o] == ((uint8_t *) s->a)[o]) continue;
                        int ex = 0; for (int k = 0; k < nexempt; k++) if (s->a + o >= exempt[k].a && s->a + o < exempt[k].a + exempt[k].n) ex = 1;
                        if (ex) continue;
                        char key[200]; long off; const char *sn = sym_containing((void *) (s->a + o), &off);
                        snprintf(key, sizeof key, "static-write %s %s", s->obj, s->sec);
                        out_viol(prop, key, cur_replay, "library static storage changed: byte %zu of %s of %s (symbol %s+%ld) differs from its load-time image %s", o, s->sec, s->obj, sn, off, when);
                        nv++;
                        memcpy(s->img, (void *) s->a, s->n);        /* report once */
                        break;
                }
        }
        return nv;
}
void static_watch_inventory(char *dst, size_t n)
{
        size_t o = 0; dst[0] = 0;
        for (int i = 0; i < nwsecs && o + 60 < n; i++) o += (size_t) snprintf(dst + o, n - o, "%s%s:%s:%zu", i ? " " : "", wsecs[i].obj, wsecs[i].sec, wsecs[i].n);
}
