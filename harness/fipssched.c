/* fipssched - C17: the FIPS self-test protocol under controlled and free-running schedules.
 *
 *  --mode sched : instruction-granular controlled schedules. 2-4 threads call isal_self_tests()
 *      (or an approved API entry) with EFLAGS.TF set; after every instruction a SIGTRAP handler decides
 *      which thread runs next (seeded random, or systematic enumeration of all schedules with at most
 *      P preemptions at protocol instructions). `pause` is treated as a yield. The schedule is replayable.
 *  --mode stress : 1..64 free-running threads released from a barrier, injected delays inside the
 *      self-tests; the per-round event log (one atomic logical clock) is checked offline.
 * The self-test bodies are replaced through --wrap by stubs with a configurable verdict. */
#include "common.h"
#include <pthread.h>
#include <signal.h>
#include <sched.h>
#include <ucontext.h>
#include <unistd.h>
#include <time.h>
#include <isal_crypto_api.h>
#include <aes_keyexp.h>
#include <aes_cbc.h>
#include <sha256_mb.h>

extern int asm_check_self_tests_status(void);
extern void asm_set_self_tests_status(int);
extern int isal_self_tests(void);
extern int __real__aes_self_tests(void), __real__sha_self_tests(void);

/* ---------------- shared monitor state ---------------- */
static volatile int verdict_fail;               /* injected outcome of this run */
static volatile int run_real;                   /* really run the self-tests inside the stub */
static volatile int n_aes, n_sha;               /* entries into the wrapped self-tests */
static volatile uint64_t clk;                   /* logical clock */
static volatile uint64_t t_selftest_exit;       /* clock when the SHA self-tests returned (end of the test run) */
static volatile int stub_spin;                  /* stress: busy iterations inside the self-tests */
static volatile unsigned stall_us;              /* stress: one long stall of the winner inside the self-tests */
static volatile uint32_t *status_var;
static uint8_t *kat[4];         /* writable known-answer data of the real self-tests: SHA-512 message, GCM tag, CBC IV, XTS key */
static const char *const kat_sym[4] = { "msg_sha512", "aes_gcm_256_tag", "aes_cbc_128_iv", "aes_xts_128_key1" };           /* self_test_status inside the library */
static inline uint64_t tick(void) { return __atomic_add_fetch(&clk, 1, __ATOMIC_SEQ_CST); }

/* re-arm / read the status word: exported accessor in the x86 configuration, a function-local static in the portable driver */
static void set_status(int v) { if (g_noarch) __atomic_store_n(status_var, (uint32_t) v, __ATOMIC_SEQ_CST); else asm_set_self_tests_status(v); }
/* the portable driver waits with usleep(1): under the controlled scheduler that is the yield point (a pause instruction the trap handler recognises) */
extern int __real_usleep(useconds_t);
static volatile int sched_mode_on;
int __wrap_usleep(useconds_t us);
int __wrap_usleep(useconds_t us)
{
        if (sched_mode_on) { __asm__ volatile("pause"); return 0; }
        return __real_usleep(us);
}
/* the long stall of the claim winner is measured in CPU time of the waiting threads, not in wall time: a waiter that gives up after N
 * spins is seen whether or not the machine is loaded (a spinning waiter only makes progress towards N while it is scheduled).
 * The portable driver's waiters sleep instead of spinning, so there the stall is wall time. */
#define MAXPOOL 64
static clockid_t cpu_clock_of[MAXPOOL]; static volatile double cpu_at_call[MAXPOOL];
static volatile int in_call[MAXPOOL]; static volatile int active_n;
static __thread int my_id = -1;
static pthread_t pool_thread[MAXPOOL]; static volatile uint64_t signals_sent;
static void on_usr1(int sig) { (void) sig; }
static volatile int stalling;           /* a deliberate stall is in progress: the stuck-thread detector waits for it to end */
static double thread_cpu(int i) { struct timespec ts; if (clock_gettime(cpu_clock_of[i], &ts)) return 1e18; return (double) ts.tv_sec + (double) ts.tv_nsec * 1e-9; }
static void long_stall(void)
{
        double want = (double) stall_us * 1e-6;
        __atomic_add_fetch(&stalling, 1, __ATOMIC_SEQ_CST);
        struct timespec w0, w1; clock_gettime(CLOCK_MONOTONIC, &w0);
        for (;;) {
                __real_usleep(50000);
                clock_gettime(CLOCK_MONOTONIC, &w1);
                double wall = (double) (w1.tv_sec - w0.tv_sec) + (double) (w1.tv_nsec - w0.tv_nsec) * 1e-9;
                if (g_noarch) {         /* signals arrive while the waiters sleep in usleep(): an interrupted sleep is not a verdict */
                        for (int i = 0; i < active_n; i++) if (i != my_id && in_call[i]) { pthread_kill(pool_thread[i], SIGUSR1); signals_sent++; }
                }
                if (wall < want) continue;
                if (g_noarch || wall >= 10 * want) break;
                int any = 0, ok = 1;
                for (int i = 0; i < active_n; i++) if (i != my_id && in_call[i]) { any = 1; if (thread_cpu(i) - cpu_at_call[i] < want) ok = 0; }
                if (!any || ok) break;
        }
        __atomic_sub_fetch(&stalling, 1, __ATOMIC_SEQ_CST);
}
int __wrap__aes_self_tests(void);
int __wrap__aes_self_tests(void)
{
        __atomic_add_fetch(&n_aes, 1, __ATOMIC_SEQ_CST);
        for (volatile int i = 0; i < stub_spin; i++) ;
        if (stall_us) long_stall();
        if (g_noarch) {         /* no AES unit in the portable configuration: always a stub; the driver stops after a failed AES group */
                if (verdict_fail == 1) t_selftest_exit = tick();
                return verdict_fail == 1 ? 1 : 0;
        }
        if (run_real == 2) return __real__aes_self_tests();     /* natural verdict of the real tests (a known-answer bit may be flipped) */
        if (run_real) (void) __real__aes_self_tests();
        return verdict_fail == 1 ? 1 : 0;      /* verdict_fail: 1 = the AES group fails, 2 = only the SHA group fails */
}
int __wrap__sha_self_tests(void);
int __wrap__sha_self_tests(void)
{
        __atomic_add_fetch(&n_sha, 1, __ATOMIC_SEQ_CST);
        for (volatile int i = 0; i < stub_spin; i++) ;
        if (run_real == 2) { int r = __real__sha_self_tests(); t_selftest_exit = tick(); return r; }
        if (run_real) (void) __real__sha_self_tests();
        t_selftest_exit = tick();
        return verdict_fail == 2 ? 1 : 0;
}

/* what a thread does as its first library call */
static ISAL_SHA256_HASH_CTX_MGR mgrs[64] __attribute__((aligned(64)));   /* preallocated: no malloc inside a stepped region */
static int first_call(int kind, int me)
{
        if (kind == 0) return isal_self_tests();
        if (kind == 1 && !g_noarch) { uint8_t key[16] = { 1 }, e[176], d[176]; return isal_aes_keyexp_128(key, e, d); }
        if (kind == 3 && !g_noarch) { static uint8_t z[64] __attribute__((aligned(16))), o[64][16]; return isal_aes_cbc_dec_192(z, z + 16, z, o[me], 0); }      /* a zero-length message: early exits must not skip the gate */
        if (kind == 4 && !g_noarch) { static uint8_t z[512] __attribute__((aligned(16))), o[64][16]; return isal_aes_cbc_enc_128(z, z + 16, z + 32, o[me], 16); }
        return isal_sha256_ctx_mgr_init(&mgrs[me]);
}
static const char *kind_name(int k) { return k == 0 ? "isal_self_tests" : k == 1 ? "isal_aes_keyexp_128" : k == 3 ? "isal_aes_cbc_dec_192(len 0)" : k == 4 ? "isal_aes_cbc_enc_128" : "isal_sha256_ctx_mgr_init"; }

/* ================================================================== controlled schedules */
#define MAXT 4
static int nthr;
static volatile int turn;                       /* thread that may run */
static volatile int done[MAXT];
static volatile uint64_t steps_of[MAXT], steps_after_publish[MAXT], ret_clk[MAXT];
static volatile int rcs[MAXT];
static volatile uint64_t gstep, pstep;          /* all steps / steps at protocol instructions */
static volatile uint64_t publish_clk;           /* clock at which the status left RUNNING/NOT_DONE for a verdict */
static volatile int published;
static uintptr_t proto_lo[3], proto_hi[3];
static rng_t sched_rng; static int sw_pct;
static int npre; static uint64_t pre_at[4]; static int pre_to[4];      /* systematic: preempt when pstep == pre_at[k] */
static uint8_t sched_trace[4096]; static volatile int ntrace;
static int kinds[MAXT];
static volatile int deadlock;

static int in_proto(uintptr_t rip) { for (int i = 0; i < 3; i++) if (rip >= proto_lo[i] && rip < proto_hi[i]) return 1; return 0; }
static int next_runnable(int after)
{
        for (int k = 1; k <= nthr; k++) { int t = (after + k) % nthr; if (!done[t]) return t; }
        return -1;
}
static void on_trap(int sig, siginfo_t *si, void *ucv)
{
        (void) sig; (void) si;
        ucontext_t *uc = ucv;
        uintptr_t rip = (uintptr_t) uc->uc_mcontext.gregs[REG_RIP];
        int me = turn;
        gstep++; steps_of[me]++;
        uint32_t st = *status_var;
        if (!published && (st == 0 || st == 1)) { published = 1; publish_clk = tick(); }
        if (published) steps_after_publish[me]++;
        int target = me;
        const uint8_t *ip = (const uint8_t *) rip;
        if (ip[0] == 0xf3 && ip[1] == 0x90) {                   /* pause: yield to somebody else */
                int t = next_runnable(me);
                if (t >= 0 && t != me) target = t;
                if (steps_of[me] > 200000) {
                        char key[100]; snprintf(key, sizeof key, "hang sched threads=%d", nthr);
                        out_viol("C17", key, cur_replay, "thread %d spun in the wait loop for more than 200000 of its own steps (status %u, self-tests entered %d/%d times)", me, st, n_aes, n_sha);
                        out_finish();
                        _exit(1);
                }
        } else if (in_proto(rip)) {
                pstep++;
                if (npre >= 0) { for (int k = 0; k < npre; k++) if (pre_at[k] == pstep) { int t = pre_to[k] % nthr; if (!done[t]) target = t; } }
                else if ((int) rng_below(&sched_rng, 100) < sw_pct) { int t = (int) rng_below(&sched_rng, (uint32_t) nthr); if (!done[t]) target = t; }
        }
        if (deadlock) { uc->uc_mcontext.gregs[REG_EFL] &= ~0x100L; return; }
        if (target != me) {
                if (ntrace + 2 < (int) sizeof sched_trace) { sched_trace[ntrace++] = (uint8_t) target; sched_trace[ntrace++] = (uint8_t) pstep; }
                __atomic_store_n(&turn, target, __ATOMIC_SEQ_CST);
                while (__atomic_load_n(&turn, __ATOMIC_SEQ_CST) != me) sched_yield();
        }
}
static void *sched_thread(void *arg)
{
        int me = (int) (intptr_t) arg;
        while (__atomic_load_n(&turn, __ATOMIC_SEQ_CST) != me) sched_yield();
        __asm__ volatile("pushfq\n\torq $0x100,(%%rsp)\n\tpopfq" ::: "memory", "cc");
        int rc = first_call(kinds[me], me);
        __asm__ volatile("pushfq\n\tandq $~0x100,(%%rsp)\n\tpopfq" ::: "memory", "cc");
        rcs[me] = rc; ret_clk[me] = tick();
        done[me] = 1;
        int t = next_runnable(me);
        if (t >= 0) __atomic_store_n(&turn, t, __ATOMIC_SEQ_CST);
        return NULL;
}

static uint64_t run_schedule(uint64_t c, char *desc, size_t dn, uint64_t *hash_out)
{
        for (int i = 0; i < MAXT; i++) { done[i] = 0; steps_of[i] = steps_after_publish[i] = ret_clk[i] = 0; rcs[i] = -99; }
        gstep = pstep = 0; published = 0; publish_clk = 0; n_aes = n_sha = 0; clk = 0; t_selftest_exit = 0; ntrace = 0; deadlock = 0;
        set_status(2);
        pthread_t th[MAXT];
        turn = -1;
        for (int i = 0; i < nthr; i++) pthread_create(&th[i], NULL, sched_thread, (void *) (intptr_t) i);
        __atomic_store_n(&turn, (int) (c % (uint64_t) nthr), __ATOMIC_SEQ_CST);
        for (int i = 0; i < nthr; i++) pthread_join(th[i], NULL);
        uint64_t h = 1469598103934665603ULL;
        for (int i = 0; i < ntrace; i++) h = (h ^ sched_trace[i]) * 1099511628211ULL;
        *hash_out = mix64(h, (uint64_t) ntrace);
        size_t o = 0; desc[0] = 0;
        for (int i = 0; i + 1 < ntrace && i < 80 && o + 12 < dn; i += 2) o += (size_t) snprintf(desc + o, dn - o, "T%d@%d ", sched_trace[i], sched_trace[i + 1]);
        return pstep;
}

static void judge(const char *modes, uint64_t c, const char *desc, const char *rb)
{
        char key[200];
        int want = verdict_fail ? ISAL_CRYPTO_ERR_SELF_TEST : 0;
        if (deadlock) { snprintf(key, sizeof key, "hang sched %s threads=%d", modes, nthr); out_viol("C17", key, rb, "a thread spun in the wait loop for more than 200000 of its own steps without the status changing (schedule %s)", desc); return; }
        if (n_aes != 1 || (n_sha != 1 && !(g_noarch && n_sha == 0 && verdict_fail == 1))) { snprintf(key, sizeof key, "selftests-not-once sched threads=%d", nthr); out_viol("C17", key, rb, "AES self-tests entered %d time(s), SHA self-tests %d time(s) in one run of %d threads (verdict %s; schedule %s)", n_aes, n_sha, nthr, verdict_fail ? "fail" : "pass", desc); }
        for (int i = 0; i < nthr; i++) {
                if (rcs[i] != want) { snprintf(key, sizeof key, "wrong-verdict sched threads=%d", nthr); out_viol("C17", key, rb, "thread %d returned %d, the injected verdict is %s (schedule %s)", i, rcs[i], verdict_fail ? "fail" : "pass", desc); }
                if (ret_clk[i] < t_selftest_exit) { snprintf(key, sizeof key, "returned-before-selftests-finished sched threads=%d", nthr); out_viol("C17", key, rb, "thread %d returned (rc %d) at logical time %llu, the self-tests finished at %llu (schedule %s)", i, rcs[i], (unsigned long long) ret_clk[i], (unsigned long long) t_selftest_exit, desc); }
                if (steps_after_publish[i] > 400) { snprintf(key, sizeof key, "slow-after-publish sched threads=%d", nthr); out_viol("C17", key, rb, "thread %d needed %llu steps after the verdict was published (schedule %s)", i, (unsigned long long) steps_after_publish[i], desc); }
        }
        (void) c;
}

/* evidence: one schedule of this worker written out (the first one with at least four context switches) */
static void sample_schedule(const char *modes, uint64_t c)
{
        static int sampled;
        if (sampled || ntrace < 8) return;
        sampled = 1; clog_on = 1;
        clog_title("%s schedule case %llu: %d threads make their first library call under the trap flag; injected verdict %s; calls: %s %s %s %s", modes, (unsigned long long) c, nthr,
                   verdict_fail ? "fail" : "pass", kind_name(kinds[0]), nthr > 1 ? kind_name(kinds[1]) : "", nthr > 2 ? kind_name(kinds[2]) : "", nthr > 3 ? kind_name(kinds[3]) : "");
        for (int i = 0; i + 1 < ntrace && i < 60; i += 2) clog_event("after protocol instruction %d (mod 256): CPU handed to thread %d", sched_trace[i + 1], sched_trace[i]);
        clog_event("observed: %llu single steps, %llu at protocol instructions; AES self-tests entered %d time(s), SHA %d time(s); verdict published at logical time %llu, self-tests left at %llu",
                   (unsigned long long) gstep, (unsigned long long) pstep, n_aes, n_sha, (unsigned long long) publish_clk, (unsigned long long) t_selftest_exit);
        for (int i = 0; i < nthr; i++) clog_event("observed: thread %d returned %d at logical time %llu after %llu of its own steps (%llu after publication)", i, rcs[i], (unsigned long long) ret_clk[i],
                                                 (unsigned long long) steps_of[i], (unsigned long long) steps_after_publish[i]);
        clog_on = 0;
}

static void mode_sched(void)
{
        struct sigaction sa; memset(&sa, 0, sizeof sa);
        sa.sa_sigaction = on_trap; sa.sa_flags = SA_SIGINFO | SA_NODEFER; sigemptyset(&sa.sa_mask);
        sigaction(SIGTRAP, &sa, NULL);
        static const char *const pn[3] = { "asm_check_self_tests_status", "asm_set_self_tests_status", "isal_self_tests" };
        sched_mode_on = 1;
        for (int i = 0; i < 3; i++) {
                proto_lo[i] = (uintptr_t) sym_addr(pn[i]);
                if (!proto_lo[i] && g_noarch && i < 2) { proto_hi[i] = 0; continue; }    /* the portable protocol lives in isal_self_tests alone */
                if (!proto_lo[i]) out_err("symbol %s not found", pn[i]);
                proto_hi[i] = sym_next_global(proto_lo[i]);
                if (!proto_hi[i] || proto_hi[i] - proto_lo[i] > 0x400) proto_hi[i] = proto_lo[i] + 0x100;
        }
        int sys_pre = (int) arg_int("--preempt", -1);   /* >=0: systematic enumeration with exactly that many preemptions; -1 random */
        nthr = (int) arg_int("--threads", 2);
        char rb[400], desc[256];
        if (sys_pre < 0) {
                for (uint64_t c = g_from; c < g_from + g_count; c++) {
                        rng_seed(&sched_rng, mix64(g_seed ^ 0x5c4ed, c));
                        nthr = 2 + (int) rng_below(&sched_rng, 3);
                        verdict_fail = (int) rng_below(&sched_rng, 3);
                        for (int i = 0; i < nthr; i++) kinds[i] = rng_below(&sched_rng, 3) ? 0 : 1 + (int) rng_below(&sched_rng, 4);
                        sw_pct = 2 + (int) rng_below(&sched_rng, 40); npre = -1;
                        snprintf(rb, sizeof rb, "{\"engine\":\"fipssched\",\"mode\":\"sched\",\"seed\":%llu,\"case\":%llu}", (unsigned long long) g_seed, (unsigned long long) c);
                        snprintf(cur_replay, sizeof cur_replay, "%s", rb);
                        LABEL("controlled schedule case %llu", (unsigned long long) c);
                        uint64_t h; run_schedule(c, desc, sizeof desc, &h);
                        cur_label[0] = 0;
                        judge("random", c, desc, rb);
                        sample_schedule("random", c);
                        out_count("schedules", 1); out_count("schedule_steps", gstep);
                        feat(h);
                }
        } else {
                /* baseline run to learn the number of protocol steps, then enumerate preemption points */
                verdict_fail = 0; npre = 0; for (int i = 0; i < nthr; i++) kinds[i] = 0;
                uint64_t h; uint64_t S = run_schedule(0, desc, sizeof desc, &h);
                uint64_t total = 1;
                for (int k = 0; k < sys_pre; k++) total *= S * (uint64_t) nthr;
                uint64_t lo = g_from, hi = g_from + g_count; if (hi > total * 2) hi = total * 2;
                for (uint64_t c = lo; c < hi; c++) {
                        uint64_t x = c / 2; verdict_fail = (int) (c & 1);
                        npre = sys_pre;
                        int ok = 1;
                        for (int k = 0; k < sys_pre; k++) { uint64_t d = x % (S * (uint64_t) nthr); x /= S * (uint64_t) nthr; pre_at[k] = 1 + d / (uint64_t) nthr; pre_to[k] = (int) (d % (uint64_t) nthr); if (k && pre_at[k] <= pre_at[k - 1]) ok = 0; }
                        if (!ok) continue;
                        snprintf(rb, sizeof rb, "{\"engine\":\"fipssched\",\"mode\":\"sched\",\"preempt\":%d,\"threads\":%d,\"case\":%llu}", sys_pre, nthr, (unsigned long long) c);
                        snprintf(cur_replay, sizeof cur_replay, "%s", rb);
                        LABEL("systematic schedule case %llu", (unsigned long long) c);
                        run_schedule(c, desc, sizeof desc, &h);
                        cur_label[0] = 0;
                        judge("systematic", c, desc, rb);
                        sample_schedule("systematic", c);
                        out_count("schedules", 1); out_count("systematic_schedules", 1); out_count("schedule_steps", gstep);
                        feat(h);
                }
                { char n1[80], n2[80]; snprintf(n1, sizeof n1, "systematic_covered_t%d_p%d", nthr, sys_pre); snprintf(n2, sizeof n2, "systematic_space_t%d_p%d", nthr, sys_pre);
                  out_count(n1, hi > lo ? hi - lo : 0); out_max(n2, total * 2); }
                out_max("protocol_steps_per_run", S);
        }
}

/* ================================================================== free-running stress */
static int POOL = 64;
/* spinning barrier: releases all parties within nanoseconds of each other (a futex barrier staggers them) */
typedef struct { volatile int count, gen; int parties; } sbar_t;
static sbar_t bar_go, bar_done;
static void sbar_wait(sbar_t *b)
{
        int g = __atomic_load_n(&b->gen, __ATOMIC_SEQ_CST);
        if (__atomic_add_fetch(&b->count, 1, __ATOMIC_SEQ_CST) == b->parties) { __atomic_store_n(&b->count, 0, __ATOMIC_SEQ_CST); __atomic_add_fetch(&b->gen, 1, __ATOMIC_SEQ_CST); return; }
        for (unsigned spins = 0; __atomic_load_n(&b->gen, __ATOMIC_SEQ_CST) == g; spins++) { if ((spins & 255) == 255) sched_yield(); else __asm__ volatile("pause"); }
}
static volatile int stop_all, kind_of[MAXPOOL], delay_of[MAXPOOL];
static volatile int rc_of[MAXPOOL]; static volatile uint64_t rclk_of[MAXPOOL];
static void *stress_thread(void *arg)
{
        int me = (int) (intptr_t) arg;
        my_id = me; pool_thread[me] = pthread_self(); pthread_getcpuclockid(pthread_self(), &cpu_clock_of[me]);
        for (;;) {
                sbar_wait(&bar_go);
                if (stop_all) return NULL;
                if (me < active_n) {
                        for (volatile int i = 0; i < delay_of[me]; i++) ;
                        cpu_at_call[me] = thread_cpu(me);
                        in_call[me] = 1;
                        rc_of[me] = first_call(kind_of[me], me);
                        rclk_of[me] = tick();
                        in_call[me] = 0;
                }
                sbar_wait(&bar_done);
        }
}
static void mode_stress(void)
{
        pthread_t th[MAXPOOL];
        { struct sigaction sa; memset(&sa, 0, sizeof sa); sa.sa_handler = on_usr1; sigemptyset(&sa.sa_mask); sigaction(SIGUSR1, &sa, NULL); }
        POOL = (int) arg_int("--pool", 8);
        if (POOL > MAXPOOL) POOL = MAXPOOL;
        bar_go.parties = bar_done.parties = POOL + 1;
        for (int i = 0; i < POOL; i++) pthread_create(&th[i], NULL, stress_thread, (void *) (intptr_t) i);
        char rb[300], key[200];
        struct timespec ts0; clock_gettime(CLOCK_MONOTONIC, &ts0);
        long budget = (long) arg_int("--budget-s", 120);
        for (uint64_t c = g_from; c < g_from + g_count; c++) {
                if ((c & 1023) == 0) { struct timespec ts; clock_gettime(CLOCK_MONOTONIC, &ts); if (ts.tv_sec - ts0.tv_sec > budget && c - g_from >= 2000) { out_note("stress stopped after %llu rounds (time budget; machine loaded)", (unsigned long long) (c - g_from)); break; } }
                rng_t r; rng_seed(&r, mix64(g_seed ^ 0x57e55, c));
                active_n = rng_below(&r, 4) == 0 ? 1 + (int) rng_below(&r, (uint32_t) POOL) : 1 + (int) rng_below(&r, (uint32_t) (POOL < 8 ? POOL : 8));
                verdict_fail = (int) rng_below(&r, 3);
                run_real = rng_below(&r, 200) == 0;
                unsigned flip = 0;
                if (rng_below(&r, 1000) == 0) { run_real = 2; flip = rng_below(&r, 16); if (g_noarch) flip &= 1; verdict_fail = flip != 0; for (int k = 0; k < 4; k++) if (flip >> k & 1) *kat[k] ^= 1; out_count("stress_rounds_with_real_self_tests", 1); }
                /* once per run: the claim winner is stalled for several seconds inside the self-tests while the others wait */
                int stall = (c == g_from + 3 && arg_int("--stall-s", 0) > 0);
                if (stall) { stall_us = (unsigned) arg_int("--stall-s", 0) * 1000000u; if (active_n < 3) active_n = 3; out_count("stress_long_stall_rounds", 1); } else stall_us = 0;
                stub_spin = rng_below(&r, 3) ? (int) rng_below(&r, 400) : (int) rng_below(&r, 20000);
                for (int i = 0; i < active_n; i++) { kind_of[i] = rng_below(&r, 2) ? 0 : 1 + (int) rng_below(&r, 4); delay_of[i] = rng_below(&r, 2) ? 0 : (int) rng_below(&r, 300); rc_of[i] = -99; }
                n_aes = n_sha = 0; clk = 0; t_selftest_exit = 0;
                set_status(2);
                snprintf(rb, sizeof rb, "{\"engine\":\"fipssched\",\"mode\":\"stress\",\"seed\":%llu,\"case\":%llu}", (unsigned long long) g_seed, (unsigned long long) c);
                snprintf(cur_replay, sizeof cur_replay, "%s", rb);
                sbar_wait(&bar_go);
                /* wait for the round; a thread that stays inside its library call for 60 s of wall clock while the
                 * others have finished is reported as stuck (load alone cannot keep a 100 ns call busy that long) */
                {
                        int g = __atomic_load_n(&bar_done.gen, __ATOMIC_SEQ_CST);
                        if (__atomic_add_fetch(&bar_done.count, 1, __ATOMIC_SEQ_CST) == bar_done.parties) { __atomic_store_n(&bar_done.count, 0, __ATOMIC_SEQ_CST); __atomic_add_fetch(&bar_done.gen, 1, __ATOMIC_SEQ_CST); }
                        else {
                                struct timespec t0, t1; clock_gettime(CLOCK_MONOTONIC, &t0);
                                for (unsigned spins = 0; __atomic_load_n(&bar_done.gen, __ATOMIC_SEQ_CST) == g; spins++) {
                                        if ((spins & 255) != 255) { __asm__ volatile("pause"); continue; }
                                        sched_yield();
                                        clock_gettime(CLOCK_MONOTONIC, &t1);
                                        if (stalling) { t0 = t1; continue; }
                                        if (t1.tv_sec - t0.tv_sec > 60) {
                                                int stuck = 0; for (int i = 0; i < active_n; i++) stuck += in_call[i];
                                                if (stuck && stuck + __atomic_load_n(&bar_done.count, __ATOMIC_SEQ_CST) >= bar_done.parties) {
                                                        snprintf(key, sizeof key, "hang stress");
                                                        out_viol("C17", key, rb, "%d of %d thread(s) did not return from their first library call within 60 s while all others had finished (status %u, self-tests entered %d/%d times)", stuck, active_n, *status_var, n_aes, n_sha);
                                                        out_finish(); _exit(1);
                                                }
                                                t0 = t1;
                                        }
                                }
                        }
                }
                int want = verdict_fail ? ISAL_CRYPTO_ERR_SELF_TEST : 0;
                if (n_aes != 1 || (n_sha != 1 && !(g_noarch && n_sha == 0 && verdict_fail == 1))) { snprintf(key, sizeof key, "selftests-not-once stress"); out_viol("C17", key, rb, "AES self-tests entered %d time(s), SHA self-tests %d time(s) in a round of %d threads", n_aes, n_sha, active_n); }
                for (int i = 0; i < active_n; i++) {
                        if (rc_of[i] != want) { snprintf(key, sizeof key, "wrong-verdict stress"); out_viol("C17", key, rb, "thread %d of %d returned %d, injected verdict %s", i, active_n, rc_of[i], verdict_fail ? "fail" : "pass"); }
                        if (rclk_of[i] < t_selftest_exit) { snprintf(key, sizeof key, "returned-before-selftests-finished stress"); out_viol("C17", key, rb, "thread %d returned at logical time %llu before the self-tests finished at %llu", i, (unsigned long long) rclk_of[i], (unsigned long long) t_selftest_exit); }
                }
                for (int k = 0; k < 4; k++) if (flip >> k & 1) *kat[k] ^= 1;
                if ((int) *status_var != (verdict_fail ? 1 : 0)) { snprintf(key, sizeof key, "verdict-not-published stress"); out_viol("C17", key, rb, "status after the round is %u", *status_var); }
                { static int sampled;
                  if (!sampled && active_n >= 3) {
                        sampled = 1; clog_on = 1;
                        clog_title("stress round %llu: %d threads released together from a spinning barrier, status re-armed to NOT_DONE, injected verdict %s, %s self-test bodies", (unsigned long long) c, active_n,
                                   verdict_fail ? "fail" : "pass", run_real ? "real" : "stub");
                        clog_event("observed: AES self-tests entered %d time(s), SHA %d time(s); self-tests left at logical time %llu; status afterwards %u", n_aes, n_sha, (unsigned long long) t_selftest_exit, *status_var);
                        for (int i = 0; i < active_n && i < 40; i++) clog_event("observed: thread %d (%s, start delay %d) returned %d at logical time %llu", i,
                                kind_name(kind_of[i]), delay_of[i], rc_of[i], (unsigned long long) rclk_of[i]);
                        clog_on = 0;
                  } }
                out_count("stress_rounds", 1); out_count("stress_thread_calls", (uint64_t) active_n);
                out_max("max_threads_in_round", (uint64_t) active_n);
                feat(mix64(0x57e, mix64((uint64_t) active_n, (uint64_t) verdict_fail * 2 + (uint64_t) (stub_spin > 400))));
        }
        if (signals_sent) out_count("signals_delivered_to_waiting_threads", signals_sent);
        stop_all = 1;
        sbar_wait(&bar_go);
        for (int i = 0; i < POOL; i++) pthread_join(th[i], NULL);
}

int main(int argc, char **argv)
{
        out_init(argc, argv);
#ifndef VERIF_FIPS
        out_err("fipssched must be linked against the FIPS_MODE build");
#endif
        status_var = g_noarch ? sym_addr_prefix("self_tests_status.") : sym_addr("self_test_status");
        if (!status_var) out_err("self_test_status not found in the symbol table");
        for (int k = 0; k < 4; k++) { kat[k] = sym_addr(kat_sym[k]); if (!kat[k]) out_err("known-answer data %s of the self-tests not found", kat_sym[k]); }
        if (*status_var != 2) out_err("self_test_status does not hold NOT_DONE at start-up (%u)", *status_var);
        const char *m = arg_str("--mode", "stress");
        if (!strcmp(m, "sched")) mode_sched(); else mode_stress();
        out_sample("{\"engine\":\"fipssched\",\"mode\":\"%s\",\"first_case\":%llu,\"cases\":%llu}", m, (unsigned long long) g_from, (unsigned long long) g_count);
        set_status(0);
        out_finish();
        return viol_count() ? 1 : 0;
}
