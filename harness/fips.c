/* fips - C13: a FIPS_MODE build fails closed.
 * Fault enumeration: every exported isal_ entry point x self-test state
 * {failed, passed, not-run + injected failure, not-run + real pass} x random otherwise-valid arguments.
 * The self-test bodies are intercepted with --wrap (count entries, inject verdicts); "cryptographic work"
 * is observed through the dispatch slots: they are re-armed before each call, so any slot that is resolved
 * afterwards means a dispatched crypto routine was entered during the call. */
#include "isal_entries.h"
#include <aes_xts.h>

extern int asm_check_self_tests_status(void);
extern void asm_set_self_tests_status(int);
extern int isal_self_tests(void);
extern unsigned int isal_crypto_get_version(void);
extern const char *isal_crypto_get_version_str(void);
extern int __real__aes_self_tests(void), __real__sha_self_tests(void);

/* the status word: exported accessors in the x86 configuration, a function-local static of isal_self_tests in the portable one */
static volatile int *gen_status;
static void set_status(int v) { if (g_noarch) *gen_status = v; else asm_set_self_tests_status(v); }
static int get_status(void) { return g_noarch ? *gen_status : asm_check_self_tests_status(); }
enum { W_REAL, W_FAIL_FAST, W_FAIL_AFTER_RUN, W_PASS_FAST, W_FAIL_SHA_ONLY };
static int wrap_mode, n_aes, n_sha, resolved_before_selftest, in_selftest;
static int any_slot_resolved(void)
{
        for (int i = 0; i < isal_dispatch_n; i++) if (disp_is_resolved(isal_dispatch_entries[i].entry)) return 1 + i;
        return 0;
}
int __wrap__aes_self_tests(void);
int __wrap__aes_self_tests(void)
{
        n_aes++;
        if (any_slot_resolved()) resolved_before_selftest = any_slot_resolved();
        in_selftest = 1;
        int r = 0;
        if (g_noarch) r = (wrap_mode == W_FAIL_AFTER_RUN || wrap_mode == W_FAIL_FAST);   /* no AES unit in the portable configuration: the AES group is always a stub */
        else if (wrap_mode == W_REAL) r = __real__aes_self_tests();
        else if (wrap_mode == W_FAIL_AFTER_RUN) { __real__aes_self_tests(); r = 1; }
        else if (wrap_mode == W_FAIL_FAST) r = 1;
        in_selftest = 0;
        return r;
}
int __wrap__sha_self_tests(void);
int __wrap__sha_self_tests(void)
{
        n_sha++;
        in_selftest = 1;
        int r = 0;
        if (wrap_mode == W_REAL) r = __real__sha_self_tests();
        else if (wrap_mode == W_FAIL_AFTER_RUN) __real__sha_self_tests();      /* verdict already failed by the AES part */
        else if (wrap_mode == W_FAIL_SHA_ONLY) r = 1;                           /* only the second group fails */
        in_selftest = 0;
        return r;
}

static int approved(const char *n)
{
        if (strstr(n, "md5") || strstr(n, "sm3") || strstr(n, "mh_sha") || strstr(n, "rolling")) return 0;
        return 1;
}
enum { ST_FAILED, ST_PASSED, ST_NOTRUN_FAIL, ST_NOTRUN_PASS, ST_NOTRUN_NATFAIL, NSTATES };
static const char *const st_name[] = { "failed", "passed", "not-run+injected-failure", "not-run+pass", "not-run+real-self-tests-fail-once" };
static uint8_t *kat[4];         /* writable known-answer data of the real self-tests, one per group: SHA-512 message, GCM tag, CBC IV, XTS key (a flipped bit makes that group fail by itself) */
static const char *const kat_sym[4] = { "msg_sha512", "aes_gcm_256_tag", "aes_cbc_128_iv", "aes_xts_128_key1" };
static char rbuf[300];

static void one(entry_t *e, int state, uint64_t c)
{
        if (!e->fn) return;     /* not part of this configuration */
        rng_t r; rng_seed(&r, mix64(g_seed ^ 0xf195, mix64(c, (uint64_t) (e - entries) * 8 + (uint64_t) state)));
        char key[220];
        int ok_alg = approved(e->name);
        /* valid objects are prepared while the module is operational */
        set_status(0);
        alloc_valid(e, &r);
        uint64_t v[10] = { 0 };
        for (int i = 0; i < e->nargs; i++) v[i] = e->a[i].kind == 'S' ? e->a[i].valid : (uint64_t) (uintptr_t) bufs[i];
        if (strstr(e->name, "xts")) v[3] = 16 + rng_below(&r, 49);
        if (strstr(e->name, "gcm") && e->nargs == 10) { v[4] = rng_below(&r, 65); }
        /* zero-length messages take early exits of their own: the gate has to come first there too */
        if (e->nargs >= 5 && e->a[4].kind == 'S' && (strstr(e->name, "cbc_enc") || strstr(e->name, "cbc_dec") || strstr(e->name, "gcm_enc") || strstr(e->name, "gcm_dec") || strstr(e->name, "ctx_mgr_submit")) && rng_below(&r, 4) == 0) {
                v[4] = 0; out_count("fips_zero_length_calls", 1);
        }
        if (ok_alg && strstr(e->name, "ctx_mgr_submit") && rng_below(&r, 2)) {
                /* the call under test continues a job that was started while the module was operational:
                 * FIRST is accepted and drained, then UPDATE or LAST arrives in the state under test */
                uint64_t pv[10]; memcpy(pv, v, sizeof pv); pv[5] = ISAL_HASH_FIRST;
                if (call(e, pv)) out_err("%s: preparatory FIRST segment refused while operational", e->name);
                void *co = NULL; uint64_t fv[10] = { v[0], (uint64_t) (uintptr_t) &co };
                for (int k = 0; k < 40; k++) { if (call(e + 1, fv)) out_err("%s: preparatory flush failed", e->name); if (!co) break; }
                v[5] = rng_below(&r, 2) ? ISAL_HASH_UPDATE : ISAL_HASH_LAST;
                out_count("fips_midjob_submits", 1);
        }
        for (int i = 0; i < e->nargs; i++) if (bufs[i]) memcpy(copies[i], bufs[i], e->a[i].size);
        /* enter the state */
        n_aes = n_sha = resolved_before_selftest = 0;
        switch (state) {
        case ST_FAILED: set_status(1); break;
        case ST_PASSED: set_status(0); break;
        case ST_NOTRUN_FAIL: set_status(2); { uint32_t k = rng_below(&r, 3); wrap_mode = k == 0 ? W_FAIL_FAST : k == 1 ? W_FAIL_AFTER_RUN : W_FAIL_SHA_ONLY; } break;
        case ST_NOTRUN_PASS: set_status(2); wrap_mode = rng_below(&r, 4) ? W_PASS_FAST : W_REAL; break;
        case ST_NOTRUN_NATFAIL: set_status(2); wrap_mode = W_REAL; break;
        }
        unsigned flipped = 0;
        if (state == ST_NOTRUN_NATFAIL) { flipped = g_noarch ? 1 : 1 + rng_below(&r, 15); for (int k = 0; k < 4; k++) if (flipped >> k & 1) *kat[k] ^= 0x01; }
        disp_rearm_all();
        snprintf(rbuf, sizeof rbuf, "{\"engine\":\"fips\",\"entry\":\"%s\",\"state\":\"%s\",\"seed\":%llu,\"case\":%llu}", e->name, st_name[state], (unsigned long long) g_seed, (unsigned long long) c);
        snprintf(cur_replay, sizeof cur_replay, "%s", rbuf);
        LABEL("%s state=%s", e->name, st_name[state]);
        int rc = call(e, v);
        cur_label[0] = 0;
        for (int k = 0; k < 4; k++) if (flipped >> k & 1) *kat[k] ^= 0x01;            /* the fault was transient */
        int resolved = any_slot_resolved();
        { static int ncell;     /* evidence: the first cells of this worker, written out */
          static volatile uint32_t *status_var; if (!status_var) status_var = sym_addr("self_test_status");
          if (ncell < 40 && status_var) { ncell++; clog_on = 1;
                clog_title("one call per cell (entry point x self-test state): status word and wrap mode set, all dispatch slots re-armed, arguments snapshotted, then the call");
                clog_event("%s in state '%s'%s: returned %d; self-tests entered AES %d / SHA %d time(s); dispatched routine entered: %s; status word afterwards %u", e->name, st_name[state],
                           flipped ? " (known-answer data of the real self-tests corrupted)" : "", rc, n_aes, n_sha, resolved ? isal_dispatch_entries[resolved - 1].name : "none", *status_var);
                clog_on = 0; } }
        out_count("fips_calls", 1);
        feat(mix64(0xf19, mix64((uint64_t) (e - entries), (uint64_t) state * 4 + (uint64_t) wrap_mode)));
        int must_refuse = !ok_alg || state == ST_FAILED || state == ST_NOTRUN_FAIL || state == ST_NOTRUN_NATFAIL;
        int want = !ok_alg ? ISAL_CRYPTO_ERR_FIPS_INVALID_ALGO : must_refuse ? ISAL_CRYPTO_ERR_SELF_TEST : 0;
        if (rc != want) {
                snprintf(key, sizeof key, "fips-rc %s %s", e->name, st_name[state]);
                out_viol("C13", key, rbuf, "%s (%s algorithm) in self-test state '%s' returned %d, expected %d", e->name, ok_alg ? "approved" : "non-approved", st_name[state], rc, want);
        }
        if (must_refuse) {
                for (int i = 0; i < e->nargs; i++) {
                        if (!bufs[i] || !memcmp(bufs[i], copies[i], e->a[i].size)) continue;
                        size_t o = 0; while (bufs[i][o] == copies[i][o]) o++;
                        snprintf(key, sizeof key, "fips-output-touched %s %s arg%d", e->name, st_name[state], i);
                        out_viol("C13", key, rbuf, "%s in state '%s' was refused (rc %d) but byte %zu of argument %d changed", e->name, st_name[state], rc, o, i);
                }
                /* crypto work: for the not-run state the self-tests themselves legitimately resolve slots when they really run */
                if (resolved && !(state == ST_NOTRUN_FAIL && wrap_mode == W_FAIL_AFTER_RUN) && state != ST_NOTRUN_NATFAIL) {
                        snprintf(key, sizeof key, "fips-crypto-work %s %s", e->name, st_name[state]);
                        out_viol("C13", key, rbuf, "%s in state '%s': the dispatched routine %s was entered although the call had to be refused", e->name, st_name[state], isal_dispatch_entries[resolved - 1].name);
                }
        }
        if (ok_alg && (state == ST_NOTRUN_FAIL || state == ST_NOTRUN_PASS || state == ST_NOTRUN_NATFAIL)) {
                /* the portable driver stops after a failed AES group */
                if (n_aes != 1 || (n_sha != 1 && !(g_noarch && n_sha == 0 && state == ST_NOTRUN_FAIL && wrap_mode != W_FAIL_SHA_ONLY))) {
                        snprintf(key, sizeof key, "fips-selftest-count %s %s", e->name, st_name[state]);
                        out_viol("C13", key, rbuf, "first call of %s with self-tests not yet run entered the AES self-tests %d time(s) and the SHA self-tests %d time(s)", e->name, n_aes, n_sha);
                }
                if (resolved_before_selftest) {
                        snprintf(key, sizeof key, "fips-work-before-selftest %s", e->name);
                        out_viol("C13", key, rbuf, "%s entered the dispatched routine %s before the self-tests had started", e->name, isal_dispatch_entries[resolved_before_selftest - 1].name);
                }
                if (state == ST_NOTRUN_NATFAIL) {
                        /* the verdict must stick: a second call (the fault is gone) is still refused and does not run the self-tests again */
                        LABEL("%s second call after naturally failed self-tests", e->name);
                        int rc2 = call(e, v);
                        cur_label[0] = 0;
                        out_count("fips_calls", 1);
                        if (rc2 != ISAL_CRYPTO_ERR_SELF_TEST || n_aes != 1 || n_sha != 1) {
                                snprintf(key, sizeof key, "fips-failed-verdict-not-sticky %s", e->name);
                                out_viol("C13", key, rbuf, "the real self-tests failed on the first call (one flipped bit in the known-answer data of group mask %x [1=SHA-512 2=GCM 4=CBC 8=XTS], restored afterwards); the next call of %s returned %d and the self-tests were entered %d/%d times in total", flipped, e->name, rc2, n_aes, n_sha);
                        }
                        for (int i = 0; i < e->nargs; i++) if (bufs[i] && memcmp(bufs[i], copies[i], e->a[i].size)) { snprintf(key, sizeof key, "fips-output-touched %s %s arg%d", e->name, st_name[state], i); out_viol("C13", key, rbuf, "%s changed argument %d after failed self-tests", e->name, i); }
                }
                int s = get_status();
                if (state != ST_NOTRUN_NATFAIL && s != (state == ST_NOTRUN_FAIL ? 1 : 0)) { snprintf(key, sizeof key, "fips-verdict-not-published %s %s", e->name, st_name[state]); out_viol("C13", key, rbuf, "after the first call the published status is %d", s); }
        }
        if (!ok_alg && (n_aes || n_sha) ) { /* running the self-tests from a non-approved entry is allowed; nothing to check */ }
        set_status(0);
        free_valid(e);
}

static void xts_same_keys(entry_t *e, uint64_t c)
{
        if (!e->fn) return;
        rng_t r; rng_seed(&r, mix64(g_seed ^ 0x5a3e, mix64(c, (uint64_t) (e - entries))));
        char key[200];
        set_status(0);
        for (int variant = 0; variant < 3; variant++) {
                alloc_valid(e, &r);
                size_t ksz = e->a[0].size;
                uint64_t v[10] = { 0 };
                for (int i = 0; i < e->nargs; i++) v[i] = e->a[i].kind == 'S' ? e->a[i].valid : (uint64_t) (uintptr_t) bufs[i];
                v[3] = 16 + rng_below(&r, 100);
                int want;
                if (variant == 0) { memcpy(bufs[1], bufs[0], ksz); want = ISAL_CRYPTO_ERR_XTS_SAME_KEYS; }              /* identical */
                else if (variant == 1) { memcpy(bufs[1], bufs[0], ksz); bufs[1][ksz - 1] ^= 1; want = 0; }                 /* differ in the last byte */
                else { memcpy(bufs[1], bufs[0], ksz); bufs[1][0] ^= 0x80; want = 0; }                                      /* differ in the first byte */
                for (int i = 0; i < e->nargs; i++) if (bufs[i]) memcpy(copies[i], bufs[i], e->a[i].size);
                disp_rearm_all();
                snprintf(rbuf, sizeof rbuf, "{\"engine\":\"fips\",\"entry\":\"%s\",\"xts_same_keys_variant\":%d,\"seed\":%llu,\"case\":%llu}", e->name, variant, (unsigned long long) g_seed, (unsigned long long) c);
                LABEL("%s same-keys variant %d", e->name, variant);
                int rc = call(e, v);
                cur_label[0] = 0;
                out_count("xts_key_pair_calls", 1);
                feat(mix64(0x5a3, mix64((uint64_t) (e - entries), (uint64_t) variant)));
                if (rc != want) { snprintf(key, sizeof key, "fips-xts-same-keys %s v%d", e->name, variant); out_viol("C13", key, rbuf, "%s with %s returned %d, expected %d", e->name, variant == 0 ? "identical data and tweak keys" : variant == 1 ? "keys differing in their last byte" : "keys differing in their first byte", rc, want); }
                if (want && (memcmp(bufs[5], copies[5], e->a[5].size) || any_slot_resolved())) { snprintf(key, sizeof key, "fips-xts-same-keys-work %s", e->name); out_viol("C13", key, rbuf, "%s refused identical keys but produced output / entered the cipher", e->name); }
                free_valid(e);
        }
}

int main(int argc, char **argv)
{
        out_init(argc, argv);
#ifndef VERIF_FIPS
        out_err("fips engine must be linked against the FIPS_MODE build");
#endif
        if (g_noarch) { gen_status = sym_addr_prefix("self_tests_status."); if (!gen_status) out_err("status word of the portable self-test driver not found"); if (*gen_status != 2) out_err("status word does not hold NOT_DONE at start-up"); }
        for (int k = 0; k < 4; k++) { kat[k] = sym_addr(kat_sym[k]); if (!kat[k]) out_err("known-answer data %s of the self-tests not found", kat_sym[k]); }
        for (uint64_t c = g_from; c < g_from + g_count; c++) {
                for (int i = 0; i < NENT; i++) {
                        for (int st = 0; st < NSTATES; st++) { if (st == ST_NOTRUN_NATFAIL && ((c + (uint64_t) i) % 6)) continue; one(&entries[i], st, c); }
                        if (strstr(entries[i].name, "xts")) xts_same_keys(&entries[i], c);
                }
                /* the three remaining exports */
                for (int st = 0; st < ST_NOTRUN_NATFAIL; st++) {
                        n_aes = n_sha = 0;
                        int fail = st == ST_FAILED || st == ST_NOTRUN_FAIL;
                        set_status(st == ST_FAILED ? 1 : st == ST_PASSED ? 0 : 2);
                        wrap_mode = st == ST_NOTRUN_FAIL ? ((c & 1) ? W_FAIL_FAST : W_FAIL_SHA_ONLY) : st == ST_NOTRUN_PASS ? ((c & 3) == 0 ? W_REAL : W_PASS_FAST) : W_REAL;
                        disp_rearm_all();
                        LABEL("isal_self_tests state=%s", st_name[st]);
                        int rc = isal_self_tests(), rc2 = isal_self_tests();
                        cur_label[0] = 0;
                        out_count("fips_calls", 2);
                        if (rc != (fail ? ISAL_CRYPTO_ERR_SELF_TEST : 0) || rc2 != rc) { char key[100]; snprintf(key, sizeof key, "fips-self-tests-verdict %s", st_name[st]); out_viol("C13", key, NULL, "isal_self_tests in state '%s' returned %d then %d", st_name[st], rc, rc2); }
                        if ((st >= ST_NOTRUN_FAIL) && (n_aes != 1 || (n_sha != 1 && !(g_noarch && n_sha == 0 && wrap_mode == W_FAIL_FAST)))) out_viol("C13", "fips-self-tests-count", NULL, "isal_self_tests ran the AES/SHA self-tests %d/%d times for two calls", n_aes, n_sha);
                        if (!isal_crypto_get_version() || !isal_crypto_get_version_str()) out_viol("C13", "fips-version", NULL, "version query failed in state %s", st_name[st]);
                }
                set_status(0);
        }
        printf("{\"t\":\"called\",\"names\":[");
        for (int i = 0; i < NENT; i++) if (entries[i].fn) printf("\"%s\",", entries[i].name);
        printf("\"isal_self_tests\",\"isal_crypto_get_version\",\"isal_crypto_get_version_str\"]}\n");
        out_count("entries_described", (uint64_t) NENT);
        out_sample("{\"engine\":\"fips\",\"entries\":%d,\"states\":[\"failed\",\"passed\",\"not-run+injected-failure\",\"not-run+pass\"],\"cases_per_cell\":%llu}", NENT, (unsigned long long) g_count);
        out_finish();
        return viol_count() ? 1 : 0;
}
