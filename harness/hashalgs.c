#include "hashalgs.h"
#include <sha1_mb.h>
#include <sha256_mb.h>
#include <sha512_mb.h>
#include <md5_mb.h>
#include <sm3_mb.h>
#include <isal_crypto_api.h>

#define FAMDECL(alg, fam) \
        extern void _##alg##_ctx_mgr_init_##fam(void *); \
        extern void *_##alg##_ctx_mgr_submit_##fam(void *, void *, const void *, uint32_t, int); \
        extern void *_##alg##_ctx_mgr_flush_##fam(void *);
#define ENTDECL(alg) \
        extern void _##alg##_ctx_mgr_init(void *); \
        extern void *_##alg##_ctx_mgr_submit(void *, void *, const void *, uint32_t, int); \
        extern void *_##alg##_ctx_mgr_flush(void *);
FAMDECL(sha1, base) FAMDECL(sha1, sse) FAMDECL(sha1, avx) FAMDECL(sha1, avx2) FAMDECL(sha1, avx512) FAMDECL(sha1, sse_ni) FAMDECL(sha1, avx512_ni)
FAMDECL(sha256, base) FAMDECL(sha256, sse) FAMDECL(sha256, avx) FAMDECL(sha256, avx2) FAMDECL(sha256, avx512) FAMDECL(sha256, sse_ni) FAMDECL(sha256, avx512_ni)
FAMDECL(sha512, base) FAMDECL(sha512, sse) FAMDECL(sha512, avx) FAMDECL(sha512, avx2) FAMDECL(sha512, avx512) FAMDECL(sha512, sb_sse4)
FAMDECL(md5, base) FAMDECL(md5, sse) FAMDECL(md5, avx) FAMDECL(md5, avx2) FAMDECL(md5, avx512)
FAMDECL(sm3, base) FAMDECL(sm3, avx2) FAMDECL(sm3, avx512)
ENTDECL(sha1) ENTDECL(sha256) ENTDECL(sha512) ENTDECL(md5) ENTDECL(sm3)

#define FAM(alg, fam, lanes, vc) { #fam, _##alg##_ctx_mgr_init_##fam, _##alg##_ctx_mgr_submit_##fam, _##alg##_ctx_mgr_flush_##fam, lanes, vc }

/* the public accessor macros of include/multi_buffer.h, as an application uses them: 0 complete, 1 processing, 2 status, 3 error */
#define CV(alg, T) static int alg##_cv(void *c, int what) { T *x = c; return what == 0 ? !!isal_hash_ctx_complete(x) : what == 1 ? !!isal_hash_ctx_processing(x) : what == 2 ? (int) isal_hash_ctx_status(x) : (int) isal_hash_ctx_error(x); }
CV(sha1, ISAL_SHA1_HASH_CTX) CV(sha256, ISAL_SHA256_HASH_CTX) CV(sha512, ISAL_SHA512_HASH_CTX) CV(md5, ISAL_MD5_HASH_CTX) CV(sm3, ISAL_SM3_HASH_CTX)
static void sha1_ci(void *c) { isal_hash_ctx_init((ISAL_SHA1_HASH_CTX *) c); }
static void sha256_ci(void *c) { isal_hash_ctx_init((ISAL_SHA256_HASH_CTX *) c); }
static void sha512_ci(void *c) { isal_hash_ctx_init((ISAL_SHA512_HASH_CTX *) c); }
static void md5_ci(void *c) { isal_hash_ctx_init((ISAL_MD5_HASH_CTX *) c); }
static void sm3_ci(void *c) { isal_hash_ctx_init((ISAL_SM3_HASH_CTX *) c); }

#define COMMON(alg, ALG, REF, DB, BLK, WS, BE, MAXL) \
        .name = #alg, .ref_alg = REF, \
        .mgr_size = sizeof(ISAL_##ALG##_HASH_CTX_MGR), .ctx_size = sizeof(ISAL_##ALG##_HASH_CTX), \
        .mgr_align = __alignof__(ISAL_##ALG##_HASH_CTX_MGR), .ctx_align = __alignof__(ISAL_##ALG##_HASH_CTX), \
        .off_status = offsetof(ISAL_##ALG##_HASH_CTX, status), .off_error = offsetof(ISAL_##ALG##_HASH_CTX, error), \
        .off_total = offsetof(ISAL_##ALG##_HASH_CTX, total_length), .off_user = offsetof(ISAL_##ALG##_HASH_CTX, user_data), \
        .off_digest = offsetof(ISAL_##ALG##_HASH_CTX, job.result_digest), \
        .off_pbl = offsetof(ISAL_##ALG##_HASH_CTX, partial_block_buffer_length), \
        .off_inbuf = offsetof(ISAL_##ALG##_HASH_CTX, incoming_buffer), .off_inlen = offsetof(ISAL_##ALG##_HASH_CTX, incoming_buffer_length), \
        .off_pbuf = offsetof(ISAL_##ALG##_HASH_CTX, partial_block_buffer), \
        .off_num_inuse = offsetof(ISAL_##ALG##_HASH_CTX_MGR, mgr.num_lanes_inuse), \
        .off_ldata = offsetof(ISAL_##ALG##_HASH_CTX_MGR, mgr.ldata), .ldata_stride = sizeof(ISAL_##ALG##_LANE_DATA), .max_lanes = MAXL, \
        .dbytes = DB, .block = BLK, .wordsz = WS, .be_words = BE, .ctx_init = alg##_ci, .ctx_view = alg##_cv, \
        .i_init = (hi_init_f) isal_##alg##_ctx_mgr_init, .i_submit = (hi_submit_f) isal_##alg##_ctx_mgr_submit, .i_flush = (hi_flush_f) isal_##alg##_ctx_mgr_flush, \
        .l_init = (h_init_f) alg##_ctx_mgr_init, .l_submit = (h_submit_f) alg##_ctx_mgr_submit, .l_flush = (h_flush_f) alg##_ctx_mgr_flush, \
        .entry = { (void *) _##alg##_ctx_mgr_init, (void *) _##alg##_ctx_mgr_submit, (void *) _##alg##_ctx_mgr_flush }

#pragma GCC diagnostic ignored "-Wdeprecated-declarations"
halg_t halgs[5] = {
        { COMMON(sha1, SHA1, REF_SHA1, 20, 64, 4, 1, ISAL_SHA1_MAX_LANES), .nfam = 7,
          .fam = { FAM(sha1, base, 16, "base"), FAM(sha1, sse, 4, "sse"), FAM(sha1, avx, 4, "avx"), FAM(sha1, avx2, 8, "avx2"),
                   FAM(sha1, avx512, 16, "avx512"), FAM(sha1, sse_ni, 4, "sse_ni"), FAM(sha1, avx512_ni, 16, "avx512_ni") } },
        { COMMON(sha256, SHA256, REF_SHA256, 32, 64, 4, 1, ISAL_SHA256_MAX_LANES), .nfam = 7,
          .fam = { FAM(sha256, base, 16, "base"), FAM(sha256, sse, 4, "sse"), FAM(sha256, avx, 4, "avx"), FAM(sha256, avx2, 8, "avx2"),
                   FAM(sha256, avx512, 16, "avx512"), FAM(sha256, sse_ni, 4, "sse_ni"), FAM(sha256, avx512_ni, 16, "avx512_ni") } },
        { COMMON(sha512, SHA512, REF_SHA512, 64, 128, 8, 1, ISAL_SHA512_MAX_LANES), .nfam = 6,
          .fam = { FAM(sha512, base, 8, "base"), FAM(sha512, sse, 2, "sse"), FAM(sha512, avx, 2, "avx"), FAM(sha512, avx2, 4, "avx2"),
                   FAM(sha512, avx512, 8, "avx512"), FAM(sha512, sb_sse4, 8, "avoton") } },
        { COMMON(md5, MD5, REF_MD5, 16, 64, 4, 0, ISAL_MD5_MAX_LANES), .nfam = 5,
          .fam = { FAM(md5, base, 32, "base"), FAM(md5, sse, 8, "sse"), FAM(md5, avx, 8, "avx"), FAM(md5, avx2, 16, "avx2"),
                   FAM(md5, avx512, 32, "avx512") } },
        { COMMON(sm3, SM3, REF_SM3, 32, 64, 4, 0, ISAL_SM3_MAX_LANES), .nfam = 3,
          .fam = { FAM(sm3, base, 16, "base"), FAM(sm3, avx2, 8, "avx2"), FAM(sm3, avx512, 16, "avx512") } },
};

void halgs_setup(void) {}
const halg_t *halg_by_name(const char *n)
{
        for (int i = 0; i < 5; i++) if (!strcmp(halgs[i].name, n)) return &halgs[i];
        return NULL;
}
const hfam_t *hfam_by_name(const halg_t *a, const char *n)
{
        for (int i = 0; i < a->nfam; i++) if (!strcmp(a->fam[i].name, n)) return &a->fam[i];
        return NULL;
}
void halg_digest_bytes(const halg_t *a, const void *ctx, uint8_t *out)
{
        const uint8_t *d = (const uint8_t *) ctx + a->off_digest;
        if (!a->be_words) { memcpy(out, d, (size_t) a->dbytes); return; }
        for (int i = 0; i < a->dbytes; i += a->wordsz)
                for (int j = 0; j < a->wordsz; j++) out[i + j] = d[i + a->wordsz - 1 - j];
}
