/* Descriptors of the five multi-buffer hash algorithms and their implementation families.
 * Only the public headers of the repository are included; family entry points are the
 * global symbols of the static library, declared here with generic signatures. */
#ifndef VERIF_HASHALGS_H
#define VERIF_HASHALGS_H
#include "common.h"
#include "../ref/ref.h"

typedef void (*h_init_f)(void *mgr);
typedef void *(*h_submit_f)(void *mgr, void *ctx, const void *buf, uint32_t len, int flags);
typedef void *(*h_flush_f)(void *mgr);
typedef int (*hi_init_f)(void *mgr);
typedef int (*hi_submit_f)(void *mgr, void *ctx, void **out, const void *buf, uint32_t len, int flags);
typedef int (*hi_flush_f)(void *mgr, void **out);

typedef struct {
        const char *name;       /* base sse avx avx2 avx512 sse_ni avx512_ni sb_sse4 */
        h_init_f init; h_submit_f submit; h_flush_f flush;
        int lanes;              /* upper bound on jobs held */
        const char *vcpu;       /* virtual CPU that makes the dispatcher select this family */
} hfam_t;

typedef struct {
        const char *name; int ref_alg;
        size_t mgr_size, ctx_size, mgr_align, ctx_align;
        size_t off_status, off_error, off_total, off_user, off_digest, off_pbl, off_inbuf, off_inlen, off_pbuf;
        size_t off_num_inuse, off_ldata, ldata_stride; int max_lanes;
        int dbytes, block, wordsz;      /* digest bytes, block bytes, 4 or 8 */
        int be_words;                   /* digest words are big-endian values of the standard bytes */
        void (*ctx_init)(void *ctx);
        int (*ctx_view)(void *ctx, int what);   /* public accessor macros: 0 isal_hash_ctx_complete, 1 _processing, 2 _status, 3 _error */
        hfam_t fam[8]; int nfam;
        hi_init_f i_init; hi_submit_f i_submit; hi_flush_f i_flush;     /* isal_ API */
        h_init_f l_init; h_submit_f l_submit; h_flush_f l_flush;        /* legacy API */
        void *entry[3];                 /* dispatched internal entries: init submit flush */
} halg_t;

extern halg_t halgs[5];
void halgs_setup(void);
const halg_t *halg_by_name(const char *n);
const hfam_t *hfam_by_name(const halg_t *a, const char *n);
/* convert a context digest into standard byte order */
void halg_digest_bytes(const halg_t *a, const void *ctx, uint8_t *out);
#endif
