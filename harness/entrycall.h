/* entrycall.h - one small valid call for each of the 64 dispatched internal entry points, on private objects.
 * Shared by the threads (C18) and dispatch (C12) engines. */
#ifndef VERIF_ENTRYCALL_H
#define VERIF_ENTRYCALL_H
#include "aesfam.h"
#include "hashalgs.h"
#include <isal_crypto_api.h>
#include <multi_buffer.h>
#include <aes_gcm.h>
#include <aes_cbc.h>
#include <aes_xts.h>
#include <mh_sha1.h>
#include <mh_sha256.h>
#include <mh_sha1_murmur3_x64_128.h>
#include <rolling_hashx.h>
#define ACC(ptr, n) do { const uint8_t *b_ = (const uint8_t *) (ptr); for (size_t i_ = 0; i_ < (size_t) (n); i_++) h = mix64(h, b_[i_]); } while (0)
typedef struct { uint8_t kd[sizeof(struct isal_gcm_key_data)] __attribute__((aligned(64))); struct isal_gcm_context_data gctx; uint8_t in[16384] __attribute__((aligned(64))), out[16384] __attribute__((aligned(64))), out2[16384] __attribute__((aligned(64)));
        uint8_t key[64], iv[16] __attribute__((aligned(16))), aad[64], tag[16], e[240] __attribute__((aligned(16))), d[240] __attribute__((aligned(16)));
        struct isal_mh_sha1_ctx mh1; struct isal_mh_sha256_ctx mh2; struct isal_mh_sha1_murmur3_x64_128_ctx mh3; struct isal_rh_state2 rh; uint8_t *hmgr[5], *hctx[5][4]; } priv_t;

static priv_t *priv_new(void)
{
        priv_t *p = aligned_alloc(64, (sizeof *p + 63) & ~(size_t) 63);
        memset(p, 0, sizeof *p);
        for (int ai = 0; ai < 5; ai++) {
                /* zeroed: a refused call (FIPS build, non-approved algorithm) leaves its outputs untouched and they are hashed all the same */
                p->hmgr[ai] = aligned_alloc(64, (halgs[ai].mgr_size + 63) & ~(size_t) 63); memset(p->hmgr[ai], 0, halgs[ai].mgr_size);
                for (int k = 0; k < 4; k++) { p->hctx[ai][k] = aligned_alloc(64, (halgs[ai].ctx_size + 63) & ~(size_t) 63); memset(p->hctx[ai][k], 0, halgs[ai].ctx_size); }
        }
        return p;
}
/* ------------------------------------------------------------------ first-call storms */
typedef struct { const char *name; void *entry; int kind, a, b, c; } sentry_t;  /* kind: 0 hash init,1 submit,2 flush; 10 gcm one,11 init,12 upd,13 fin,14 precomp; 20 xts; 30 cbc enc,31 cbc dec; 40 keyexp,41 keyexp enc; 50 mh upd,51 mh fin; 60 rolling */
static sentry_t S[80]; static int nS;
static int entrycall_len = -1;          /* >= 0: use this data length instead of a random one (max 4096) */
#pragma GCC diagnostic ignored "-Wstrict-prototypes"
extern int _mh_sha1_update(), _mh_sha1_finalize(), _mh_sha256_update(), _mh_sha256_finalize(), _mh_sha1_murmur3_x64_128_update(), _mh_sha1_murmur3_x64_128_finalize();
extern uint64_t _rolling_hash2_run_until();
static void build_entries(void)
{
        for (int ai = 0; ai < 5; ai++) for (int k = 0; k < 3; k++) S[nS++] = (sentry_t) { halgs[ai].name, halgs[ai].entry[k], k, ai, 0, 0 };
        for (int ks = 0; ks < 2; ks++) {
                S[nS++] = (sentry_t) { "gcm precomp", (void *) gcm_entries.precomp[ks], 14, ks, 0, 0 };
                S[nS++] = (sentry_t) { "gcm init", (void *) gcm_entries.init[ks], 11, ks, 0, 0 };
                for (int d = 0; d < 2; d++) {
                        S[nS++] = (sentry_t) { "gcm finalize", (void *) gcm_entries.fin[ks][d], 13, ks, d, 0 };
                        for (int nt = 0; nt < 2; nt++) { S[nS++] = (sentry_t) { "gcm one-shot", (void *) gcm_entries.one[ks][d][nt], 10, ks, d, nt }; S[nS++] = (sentry_t) { "gcm update", (void *) gcm_entries.upd[ks][d][nt], 12, ks, d, nt }; }
                        for (int xp = 0; xp < 2; xp++) S[nS++] = (sentry_t) { "xts", (void *) xts_entries[ks][d][xp], 20, ks, d, xp };
                }
        }
        for (int ks = 0; ks < 3; ks++) { S[nS++] = (sentry_t) { "cbc enc", (void *) cbc_enc_entries[ks], 30, ks, 0, 0 }; S[nS++] = (sentry_t) { "cbc dec", (void *) cbc_dec_entries[ks], 31, ks, 0, 0 }; S[nS++] = (sentry_t) { "keyexp", (void *) keyexp_entries[ks], 40, ks, 0, 0 }; }
        S[nS++] = (sentry_t) { "keyexp enc", (void *) keyexp_enc128_entry, 41, 0, 0, 0 };
        S[nS++] = (sentry_t) { "mh_sha1 update", (void *) _mh_sha1_update, 50, 0, 0, 0 }; S[nS++] = (sentry_t) { "mh_sha1 finalize", (void *) _mh_sha1_finalize, 51, 0, 0, 0 };
        S[nS++] = (sentry_t) { "mh_sha256 update", (void *) _mh_sha256_update, 50, 1, 0, 0 }; S[nS++] = (sentry_t) { "mh_sha256 finalize", (void *) _mh_sha256_finalize, 51, 1, 0, 0 };
        S[nS++] = (sentry_t) { "murmur update", (void *) _mh_sha1_murmur3_x64_128_update, 50, 2, 0, 0 }; S[nS++] = (sentry_t) { "murmur finalize", (void *) _mh_sha1_murmur3_x64_128_finalize, 51, 2, 0, 0 };
        S[nS++] = (sentry_t) { "rolling scan", (void *) _rolling_hash2_run_until, 60, 0, 0, 0 };
}
/* call the entry once on private objects with small valid arguments; returns a hash of the API-visible outputs.
 * With entrycall_trace set, the trap flag is on exactly while the entry under test executes. */
static int entrycall_trace;
static uint32_t entrycall_taglen = 16, entrycall_aadlen = 20;   /* varied by the tracer so that the tag-length and AAD-length branches are executed too */
#define L(stmt) do { if (entrycall_trace) __asm__ volatile("pushfq\n\torq $0x100,(%%rsp)\n\tpopfq" ::: "memory", "cc"); stmt; if (entrycall_trace) __asm__ volatile("pushfq\n\tandq $~0x100,(%%rsp)\n\tpopfq" ::: "memory", "cc"); } while (0)
static uint64_t call_entry(const sentry_t *s, priv_t *p, uint64_t seed)
{
        rng_t r; rng_seed(&r, seed);
        uint64_t h = 0;
        uint32_t len = 64 + rng_below(&r, 200);
        if (entrycall_len >= 0) len = (uint32_t) entrycall_len;
        rng_fill(&r, p->in, 512); rng_fill(&r, p->key, 64); rng_fill(&r, p->iv, 16); rng_fill(&r, p->aad, 64);
        ref_aes_t a; ref_aes_expand(&a, p->key, s->kind >= 30 && s->kind < 42 ? ks_bits3[s->a] : ks_bits2[s->a & 1]);
        switch (s->kind) {
        case 0: case 1: case 2: {
                const halg_t *al = &halgs[s->a];
                /* the manager is prepared through the dispatched init (same family by the same-object binding rule);
                 * all three slots are re-armed together, so preparation calls are first calls too */
                void *ret;
                if (s->kind == 0) {
                        L(((h_init_f) s->entry)(p->hmgr[s->a]));
                        al->ctx_init(p->hctx[s->a][0]); ((h_submit_f) al->entry[1])(p->hmgr[s->a], p->hctx[s->a][0], p->in, len, ISAL_HASH_ENTIRE); while (((h_flush_f) al->entry[2])(p->hmgr[s->a])) ;
                } else {
                        ((h_init_f) al->entry[0])(p->hmgr[s->a]); al->ctx_init(p->hctx[s->a][0]);
                        if (s->kind == 1) { L(ret = ((h_submit_f) s->entry)(p->hmgr[s->a], p->hctx[s->a][0], p->in, len, ISAL_HASH_ENTIRE)); (void) ret; while (((h_flush_f) al->entry[2])(p->hmgr[s->a])) ; }
                        else { ((h_submit_f) al->entry[1])(p->hmgr[s->a], p->hctx[s->a][0], p->in, len, ISAL_HASH_ENTIRE); int n = 0; for (;;) { L(ret = ((h_flush_f) s->entry)(p->hmgr[s->a])); if (!ret) break; n++; } }
                }
                ACC(p->hctx[s->a][0] + al->off_digest, al->dbytes);
                break; }
        case 10: case 11: case 12: case 13: case 14: {
                /* key data and context are opaque and family specific: only ciphertext and tag are compared */
                memcpy(p->kd, a.enc, (size_t) 16 * (a.nr + 1));
                if (s->kind == 14) L(((gcm_precomp_f) s->entry)(p->kd)); else gcm_entries.precomp[s->a](p->kd);
                if (s->kind == 10) { L(((gcm_one_f) s->entry)(p->kd, &p->gctx, p->out, p->in, len, p->iv, p->aad, entrycall_aadlen, p->tag, entrycall_taglen)); ACC(p->out, len); ACC(p->tag, entrycall_taglen); break; }
                if (s->kind == 11) L(((gcm_init_f) s->entry)(p->kd, &p->gctx, p->iv, p->aad, entrycall_aadlen)); else gcm_entries.init[s->a](p->kd, &p->gctx, p->iv, p->aad, 20);
                uint32_t ul = entrycall_len >= 0 ? len : 128;
                if (s->kind == 12) L(((gcm_upd_f) s->entry)(p->kd, &p->gctx, p->out, p->in, ul)); else gcm_entries.upd[s->a][s->kind == 13 ? s->b : 0][0](p->kd, &p->gctx, p->out, p->in, ul);
                ACC(p->out, ul);
                if (s->kind == 13) L(((gcm_fin_f) s->entry)(p->kd, &p->gctx, p->tag, entrycall_taglen)); else gcm_entries.fin[s->a][s->kind == 12 ? s->b : 0](p->kd, &p->gctx, p->tag, 16);
                ACC(p->tag, 16);
                break; }
        case 20: { ref_aes_t a2; ref_aes_expand(&a2, p->key + 32, ks_bits2[s->a]);
                const uint8_t *k1 = s->c ? (s->b ? (uint8_t *) a.dec : (uint8_t *) a.enc) : p->key, *k2 = s->c ? (uint8_t *) a2.enc : p->key + 32;
                uint32_t xl = len < 16 ? 16 : len; L(((xts_f) s->entry)(k2, k1, p->iv, xl, p->in, p->out)); ACC(p->out, xl); break; }
        case 30: { uint32_t cl = entrycall_len >= 0 ? (len < 16 ? 16 : len & ~15u) : 160; memcpy(p->e, a.enc, 240); L(((cbc_enc_f) s->entry)(p->in, p->iv, p->e, p->out, cl)); ACC(p->out, cl); break; }
        case 31: { uint32_t cl = entrycall_len >= 0 ? (len < 16 ? 16 : len & ~15u) : 160; memcpy(p->d, a.dec, 240); L(((cbc_dec_f) s->entry)(p->in, p->iv, p->d, p->out, cl)); ACC(p->out, cl); break; }
        case 40: L(((keyexp_f) s->entry)(p->key, p->e, p->d)); ACC(p->e, (size_t) 16 * (a.nr + 1)); ACC(p->d, (size_t) 16 * (a.nr + 1)); break;
        case 41: L(((keyexp_enc_f) s->entry)(p->key, p->e)); ACC(p->e, 176); break;
        case 50: case 51: {
                void *ctx = s->a == 0 ? (void *) &p->mh1 : s->a == 1 ? (void *) &p->mh2 : (void *) &p->mh3;
                uint32_t dg[8] = { 0 }; uint8_t mu[16] = { 0 };
                if (s->a == 0) isal_mh_sha1_init(ctx); else if (s->a == 1) isal_mh_sha256_init(ctx); else isal_mh_sha1_murmur3_x64_128_init(ctx, 5);
                uint32_t ml = entrycall_len >= 0 ? len : 2100;
                if (s->kind == 50) L(((int (*)(void *, const void *, uint32_t)) s->entry)(ctx, p->in, ml));
                else { if (s->a == 0) mh_sha1_update_base(ctx, p->in, 300); else if (s->a == 1) mh_sha256_update_base(ctx, p->in, 300); else mh_sha1_murmur3_x64_128_update_base(ctx, p->in, 300); }
                if (s->kind == 51) { if (s->a == 2) L(((int (*)(void *, void *, void *)) s->entry)(ctx, dg, mu)); else L(((int (*)(void *, void *)) s->entry)(ctx, dg)); }
                else { if (s->a == 0) mh_sha1_finalize_base(ctx, dg); else if (s->a == 1) mh_sha256_finalize_base(ctx, dg); else mh_sha1_murmur3_x64_128_finalize_base(ctx, dg, mu); }
                ACC(dg, 32); ACC(mu, 16);
                break; }
        case 60: { rolling_hash2_init(&p->rh, 8); rolling_hash2_reset(&p->rh, p->key); uint32_t idx = 8; uint64_t hh;
                L(hh = ((uint64_t (*)(uint32_t *, int, uint64_t *, uint64_t *, uint8_t *, uint8_t *, uint64_t, uint64_t, uint64_t)) s->entry)(&idx, (int) (len > 300 ? 300 : len < 9 ? 9 : len), p->rh.table1, p->rh.table2, p->in + 8, p->in, 0x1234, 0xff, 0x17));
                h = mix64(hh, idx); break; }
        }
        return h;
}
#endif
