/* Shared harness machinery: rng, worker output protocol, guarded memory, fault capture,
 * virtual CPU (dispatch forcing). */
#ifndef VERIF_COMMON_H
#define VERIF_COMMON_H
#define _GNU_SOURCE
#include <stdint.h>
#include <stddef.h>
#include <stdio.h>
#include <stdlib.h>
#include <string.h>
#include <setjmp.h>
#include <stdarg.h>
#include <signal.h>

/* ---------- rng ---------- */
typedef struct { uint64_t s[4]; } rng_t;
uint64_t mix64(uint64_t a, uint64_t b);
void rng_seed(rng_t *r, uint64_t seed);
uint64_t rng_u64(rng_t *r);
uint32_t rng_below(rng_t *r, uint32_t n);       /* uniform in [0,n) ; n>0 */
void rng_fill(rng_t *r, void *p, size_t n);
static inline int rng_chance(rng_t *r, uint32_t pct) { return rng_below(r, 100) < pct; }

/* ---------- output protocol (JSON lines on stdout; thread-safe) ---------- */
void out_init(int argc, char **argv);           /* parses --seed --from --count --feat-out --prop ; installs crash handlers */
extern int g_noarch;                             /* --noarch 1: the library is the portable C configuration (no dispatchers, no family symbols) */
extern uint64_t g_seed, g_from, g_count;        /* case range [g_from, g_from+g_count) */
extern const char *g_prop;                      /* property id the worker is run for */
const char *arg_str(const char *name, const char *def);
long long arg_int(const char *name, long long def);
int arg_flag(const char *name);
void out_count(const char *name, uint64_t n);   /* summed by the driver */
void out_max(const char *name, uint64_t v);     /* max-ed by the driver */
void out_viol(const char *prop, const char *key, const char *replay_json, const char *fmt, ...) __attribute__((format(printf, 4, 5)));
void out_sample(const char *fmt, ...) __attribute__((format(printf, 1, 2)));   /* fmt renders a JSON value */
void out_err(const char *fmt, ...) __attribute__((format(printf, 1, 2), noreturn));    /* harness error: exit 2 */
void out_note(const char *fmt, ...) __attribute__((format(printf, 1, 2)));
void feat(uint64_t h);                          /* distinct non-trivial case features */
void out_finish(void);                          /* flush counters, features, print done */
/* label of the library call in progress, shown if the process dies inside it */
extern __thread char cur_label[320];
extern __thread const char *cur_prop;           /* property blamed for a crash inside the library */
extern __thread char cur_replay[512];
extern int label_rec_n;
void label_rec(void);
#define LABEL(...) do { snprintf(cur_label, sizeof cur_label, __VA_ARGS__); if (__builtin_expect(label_rec_n < 16, 0)) label_rec(); } while (0)
/* evidence: events of one case written out (the first CLOG_MAX events the engine reports while clog_on) */
extern int clog_on;
void clog_event(const char *fmt, ...) __attribute__((format(printf, 1, 2)));
void clog_title(const char *fmt, ...) __attribute__((format(printf, 1, 2)));
int viol_count(void);
void hex(char *dst, const void *src, size_t n); /* dst must hold 2n+1 */
const char *sym_name(const void *addr);         /* exact-address symbol name from <argv0>.syms (nm), "?" if unknown */
const char *sym_containing(const void *addr, long *off);
void *sym_addr(const char *name);               /* NULL if unknown */
void *sym_addr_prefix(const char *prefix);      /* the only symbol whose name starts with prefix (local statics: name.N), NULL if none or several */
uintptr_t sym_next_global(uintptr_t a);
/* static-storage watch (C18): snapshot of every writable input section of the library's objects, taken at the
 * first call; static_watch_check reports bytes that differ from the load-time image, other than the dispatch
 * slots and the self-test status. Returns the number of sections watched (0 if the section list is missing). */
int static_watch_init(void);
int static_watch_check(const char *prop, const char *when);     /* number of violations reported */
void static_watch_inventory(char *dst, size_t n);         /* address of the next global text symbol above a */

/* ---------- guarded memory ---------- */
enum { G_END = 0, G_START = 1, G_MID = 2 };
typedef struct {
        uint8_t *p;             /* user pointer */
        size_t size;
        uint8_t *map; size_t maplen;
        uint8_t *body; size_t bodylen;  /* accessible pages */
        int placement;
        uint8_t canary;
} gbuf_t;
/* align: required alignment of p (power of two, <= 4096). For G_END the end is pushed as close to
 * the guard page as the alignment permits (slack is canary-filled). misalign: extra offset for G_MID */
uint8_t *galloc(gbuf_t *g, size_t size, size_t align, int placement, unsigned misalign);
void gprot(gbuf_t *g, int readonly);
int gcanary_ok(const gbuf_t *g, long *where);   /* where: offset relative to p of first damaged slack byte */
void gfree(gbuf_t *g);
/* a readable/writable region of 2*half bytes whose middle lies on a 4 GiB-aligned address: a buffer placed across the middle
 * exposes pointer arithmetic carried out in 32 bits (lost carry into bit 32). Each call maps a fresh region; NULL when no such
 * address range can be mapped (sanitizer shadow, valgrind). */
uint8_t *straddle_map(size_t half);
void *gnone_ptr(void);                          /* pointer into the middle of a PROT_NONE region (16 pages each side) */
size_t gnone_range(uint8_t **lo);               /* the PROT_NONE region */

/* fault capture */
typedef struct { void *addr; int is_write; int sig; void *pc; } fault_t;
extern __thread sigjmp_buf fault_jmp;
extern __thread volatile int fault_armed;
extern __thread fault_t fault_last;
void fault_install(void);
/* evaluates to 0 if stmt completed, 1 if it faulted (fault_last filled) */
#define GUARDED(stmt) (fault_armed = 1, (sigsetjmp(fault_jmp, 1) == 0) ? ((stmt), fault_armed = 0, 0) : (fault_armed = 0, 1))

/* ---------- virtual CPU (hook ISAL_CRYPTO_VERIF) ---------- */
struct vcpu {
        uint32_t active;        /* 0 = pass through to the real instructions */
        uint32_t l1_eax, l1_ecx, l1_edx;
        uint32_t l7_ebx, l7_ecx, l7_edx;
        uint32_t xcr0;
        uint64_t n_cpuid, n_xgetbv;     /* calls observed (also counted when passing through) */
        uint64_t n_xgetbv_no_osxsave;   /* xgetbv executed while virtual OSXSAVE=0 (would #UD) */
};
extern struct vcpu isal_verif_vcpu;
extern void (*isal_verif_hook_cb)(void *resolver_pc);        /* optional observer called on every virtual cpuid/xgetbv (all registers preserved around it) */
/* named configurations */
int vcpu_set(const char *name);  /* "host" (pass-through) base sse sse_ni avx avx2 avx512 avx512_g2 avx512_ni avx512_g2_ni avoton ; -1 if unknown */
extern const char *const vcpu_names[];
/* dispatch pointer behind a multibinary entry: decodes [endbr64] jmp [rip+disp32] */
void **dispatch_slot(void *entry);
typedef struct { void *entry; void **slot; void *initial; } disp_t;
int disp_bind(disp_t *d, void *entry);  /* remembers the (initial) value; must be called before first use of entry. 0 ok */
void disp_rearm(disp_t *d);
static inline void *disp_target(disp_t *d) { return *d->slot; }
/* all dispatched entry points of the build (generated table) */
typedef struct { const char *name; void *entry; } dispent_t;
extern const dispent_t isal_dispatch_entries[];
extern const int isal_dispatch_n;
void disp_rearm_all(void);                      /* every entry resolves again on its next call */
void force_vcpu(const char *name);              /* vcpu_set + disp_rearm_all ; harness error if unknown */
void *disp_target_of(void *entry);              /* current binding of an entry (its resolver stub if unresolved) */
int disp_is_resolved(void *entry);
#endif
