#include "aesfam.h"
#include <openssl/evp.h>

/* ---- GCM ---- */
#define GD1(pfx, ks, sfx) \
        extern void pfx##aes_gcm_enc_##ks##sfx(); extern void pfx##aes_gcm_dec_##ks##sfx(); \
        extern void pfx##aes_gcm_enc_##ks##sfx##_nt(); extern void pfx##aes_gcm_dec_##ks##sfx##_nt(); \
        extern void pfx##aes_gcm_init_##ks##sfx(); \
        extern void pfx##aes_gcm_enc_##ks##_update##sfx(); extern void pfx##aes_gcm_dec_##ks##_update##sfx(); \
        extern void pfx##aes_gcm_enc_##ks##_update##sfx##_nt(); extern void pfx##aes_gcm_dec_##ks##_update##sfx##_nt(); \
        extern void pfx##aes_gcm_enc_##ks##_finalize##sfx(); extern void pfx##aes_gcm_dec_##ks##_finalize##sfx();
#define GDECL(pfx, sfx) GD1(pfx, 128, sfx) GD1(pfx, 256, sfx)
#pragma GCC diagnostic ignored "-Wstrict-prototypes"
GDECL(_, _sse) GDECL(_, _avx_gen2) GDECL(_, _avx_gen4) GDECL(_, _vaes_avx512) GDECL(_, ) GDECL(, )
extern void _aes_gcm_precomp_128_sse(), _aes_gcm_precomp_256_sse(), _aes_gcm_precomp_128_avx_gen2(), _aes_gcm_precomp_256_avx_gen2(),
        _aes_gcm_precomp_128_avx_gen4(), _aes_gcm_precomp_256_avx_gen4(), _aes_gcm_precomp_128_vaes_avx512(), _aes_gcm_precomp_256_vaes_avx512(),
        _aes_gcm_precomp_128(), _aes_gcm_precomp_256(), _aes_gcm_pre_128(), _aes_gcm_pre_256(), aes_gcm_pre_128(), aes_gcm_pre_256();
#define GI1(ks) \
        extern int isal_aes_gcm_enc_##ks(), isal_aes_gcm_dec_##ks(), isal_aes_gcm_enc_##ks##_nt(), isal_aes_gcm_dec_##ks##_nt(), isal_aes_gcm_init_##ks(), \
                isal_aes_gcm_enc_##ks##_update(), isal_aes_gcm_dec_##ks##_update(), isal_aes_gcm_enc_##ks##_update_nt(), isal_aes_gcm_dec_##ks##_update_nt(), \
                isal_aes_gcm_enc_##ks##_finalize(), isal_aes_gcm_dec_##ks##_finalize(), isal_aes_gcm_pre_##ks();
GI1(128) GI1(256)

#define GSET(T, pfx, sfx) { \
        .one = { { { (T##one_f) pfx##aes_gcm_enc_128##sfx, (T##one_f) pfx##aes_gcm_enc_128##sfx##_nt }, { (T##one_f) pfx##aes_gcm_dec_128##sfx, (T##one_f) pfx##aes_gcm_dec_128##sfx##_nt } }, \
                 { { (T##one_f) pfx##aes_gcm_enc_256##sfx, (T##one_f) pfx##aes_gcm_enc_256##sfx##_nt }, { (T##one_f) pfx##aes_gcm_dec_256##sfx, (T##one_f) pfx##aes_gcm_dec_256##sfx##_nt } } }, \
        .init = { (T##init_f) pfx##aes_gcm_init_128##sfx, (T##init_f) pfx##aes_gcm_init_256##sfx }, \
        .upd = { { { (T##upd_f) pfx##aes_gcm_enc_128_update##sfx, (T##upd_f) pfx##aes_gcm_enc_128_update##sfx##_nt }, { (T##upd_f) pfx##aes_gcm_dec_128_update##sfx, (T##upd_f) pfx##aes_gcm_dec_128_update##sfx##_nt } }, \
                 { { (T##upd_f) pfx##aes_gcm_enc_256_update##sfx, (T##upd_f) pfx##aes_gcm_enc_256_update##sfx##_nt }, { (T##upd_f) pfx##aes_gcm_dec_256_update##sfx, (T##upd_f) pfx##aes_gcm_dec_256_update##sfx##_nt } } }, \
        .fin = { { (T##fin_f) pfx##aes_gcm_enc_128_finalize##sfx, (T##fin_f) pfx##aes_gcm_dec_128_finalize##sfx }, { (T##fin_f) pfx##aes_gcm_enc_256_finalize##sfx, (T##fin_f) pfx##aes_gcm_dec_256_finalize##sfx } }
#define GFAM(n, vc, sfx) { n, vc, GSET(gcm_, _, sfx), .precomp = { (gcm_precomp_f) _aes_gcm_precomp_128##sfx, (gcm_precomp_f) _aes_gcm_precomp_256##sfx } } }
const gcmfam_t gcm_fams[NGCMFAM] = {
        GFAM("sse", "sse", _sse), GFAM("avx_gen2", "avx", _avx_gen2), GFAM("avx_gen4", "avx2", _avx_gen4), GFAM("vaes_avx512", "avx512_g2", _vaes_avx512),
};
const gcm_set_t gcm_entries = GSET(gcm_, _, ), .precomp = { (gcm_precomp_f) _aes_gcm_precomp_128, (gcm_precomp_f) _aes_gcm_precomp_256 } };
const igcm_set_t gcm_isal = GSET(igcm_, isal_, ), .pre = { (igcm_pre_f) isal_aes_gcm_pre_128, (igcm_pre_f) isal_aes_gcm_pre_256 } };
const lgcm_set_t gcm_legacy = { .pre = { (gcm_pre_f) aes_gcm_pre_128, (gcm_pre_f) aes_gcm_pre_256 }, .s = GSET(gcm_, , ) } };
const gcm_pre_f gcm_pre_internal[2] = { (gcm_pre_f) _aes_gcm_pre_128, (gcm_pre_f) _aes_gcm_pre_256 };

/* ---- XTS ---- */
#define XD(pfx, sfx) extern void pfx##XTS_AES_128_enc##sfx(), pfx##XTS_AES_128_dec##sfx(), pfx##XTS_AES_256_enc##sfx(), pfx##XTS_AES_256_dec##sfx(), \
        pfx##XTS_AES_128_enc_expanded_key##sfx(), pfx##XTS_AES_128_dec_expanded_key##sfx(), pfx##XTS_AES_256_enc_expanded_key##sfx(), pfx##XTS_AES_256_dec_expanded_key##sfx();
XD(_, _sse) XD(_, _avx) XD(_, _vaes) XD(_, ) XD(, )
extern int isal_aes_xts_enc_128(), isal_aes_xts_dec_128(), isal_aes_xts_enc_256(), isal_aes_xts_dec_256(),
        isal_aes_xts_enc_128_expanded_key(), isal_aes_xts_dec_128_expanded_key(), isal_aes_xts_enc_256_expanded_key(), isal_aes_xts_dec_256_expanded_key();
#define XSET(T, pfx, sfx) { { { (T) pfx##XTS_AES_128_enc##sfx, (T) pfx##XTS_AES_128_enc_expanded_key##sfx }, { (T) pfx##XTS_AES_128_dec##sfx, (T) pfx##XTS_AES_128_dec_expanded_key##sfx } }, \
        { { (T) pfx##XTS_AES_256_enc##sfx, (T) pfx##XTS_AES_256_enc_expanded_key##sfx }, { (T) pfx##XTS_AES_256_dec##sfx, (T) pfx##XTS_AES_256_dec_expanded_key##sfx } } }
const xtsfam_t xts_fams[NXTSFAM] = { { "sse", "sse", XSET(xts_f, _, _sse) }, { "avx", "avx", XSET(xts_f, _, _avx) }, { "vaes", "avx512_g2", XSET(xts_f, _, _vaes) } };
const xts_f xts_entries[2][2][2] = XSET(xts_f, _, );
const xts_f xts_legacy[2][2][2] = XSET(xts_f, , );
const ixts_f xts_isal[2][2][2] = { { { (ixts_f) isal_aes_xts_enc_128, (ixts_f) isal_aes_xts_enc_128_expanded_key }, { (ixts_f) isal_aes_xts_dec_128, (ixts_f) isal_aes_xts_dec_128_expanded_key } },
        { { (ixts_f) isal_aes_xts_enc_256, (ixts_f) isal_aes_xts_enc_256_expanded_key }, { (ixts_f) isal_aes_xts_dec_256, (ixts_f) isal_aes_xts_dec_256_expanded_key } } };

/* ---- CBC ---- */
#define CD(pfx, op, sfx) extern int pfx##aes_cbc_##op##_128##sfx(), pfx##aes_cbc_##op##_192##sfx(), pfx##aes_cbc_##op##_256##sfx();
CD(_, enc, _x4) CD(_, enc, _x8) CD(_, dec, _sse) CD(_, dec, _avx) CD(_, dec, _vaes_avx512) CD(_, enc, ) CD(_, dec, ) CD(, enc, ) CD(, dec, ) CD(isal_, enc, ) CD(isal_, dec, )
#define C3(T, pfx, op, sfx) { (T) pfx##aes_cbc_##op##_128##sfx, (T) pfx##aes_cbc_##op##_192##sfx, (T) pfx##aes_cbc_##op##_256##sfx }
const cbcencfam_t cbc_enc_fams[2] = { { "x4", "sse", C3(cbc_enc_f, _, enc, _x4) }, { "x8", "avx", C3(cbc_enc_f, _, enc, _x8) } };
const cbcdecfam_t cbc_dec_fams[3] = { { "sse", "sse", C3(cbc_dec_f, _, dec, _sse) }, { "avx", "avx", C3(cbc_dec_f, _, dec, _avx) }, { "vaes_avx512", "avx512_g2", C3(cbc_dec_f, _, dec, _vaes_avx512) } };
const cbc_enc_f cbc_enc_entries[3] = C3(cbc_enc_f, _, enc, ), cbc_enc_legacy[3] = C3(cbc_enc_f, , enc, );
const cbc_dec_f cbc_dec_entries[3] = C3(cbc_dec_f, _, dec, ), cbc_dec_legacy[3] = C3(cbc_dec_f, , dec, );
const icbc_f cbc_enc_isal[3] = C3(icbc_f, isal_, enc, ), cbc_dec_isal[3] = C3(icbc_f, isal_, dec, );

/* ---- key expansion ---- */
#define KD(pfx, sfx) extern int pfx##aes_keyexp_128##sfx(), pfx##aes_keyexp_192##sfx(), pfx##aes_keyexp_256##sfx();
KD(_, _sse) KD(_, _avx) KD(_, ) KD(, ) KD(isal_, )
extern void _aes_keyexp_128_enc_sse(), _aes_keyexp_128_enc_avx(), _aes_keyexp_128_enc();
#define K3(T, pfx, sfx) { (T) pfx##aes_keyexp_128##sfx, (T) pfx##aes_keyexp_192##sfx, (T) pfx##aes_keyexp_256##sfx }
const keyexpfam_t keyexp_fams[2] = { { "sse", "sse", K3(keyexp_f, _, _sse), (keyexp_enc_f) _aes_keyexp_128_enc_sse }, { "avx", "avx", K3(keyexp_f, _, _avx), (keyexp_enc_f) _aes_keyexp_128_enc_avx } };
const keyexp_f keyexp_entries[3] = K3(keyexp_f, _, ), keyexp_legacy[3] = K3(keyexp_f, , );
const ikeyexp_f keyexp_isal[3] = K3(ikeyexp_f, isal_, );
const keyexp_enc_f keyexp_enc128_entry = (keyexp_enc_f) _aes_keyexp_128_enc;

/* ---- OpenSSL oracle ---- */
int ossl_gcm(int keybits, int enc, const uint8_t *key, const uint8_t *iv, const uint8_t *aad, size_t aadlen,
             const uint8_t *in, uint8_t *out, size_t len, uint8_t tag[16])
{
        EVP_CIPHER_CTX *c = EVP_CIPHER_CTX_new();
        int n, ok = 1;
        ok &= EVP_CipherInit_ex(c, keybits == 128 ? EVP_aes_128_gcm() : EVP_aes_256_gcm(), NULL, NULL, NULL, enc);
        ok &= EVP_CIPHER_CTX_ctrl(c, EVP_CTRL_GCM_SET_IVLEN, 12, NULL);
        ok &= EVP_CipherInit_ex(c, NULL, NULL, key, iv, enc);
        if (aadlen) ok &= EVP_CipherUpdate(c, NULL, &n, aad, (int) aadlen);
        size_t o = 0;
        while (o < len) { int k = (int) (len - o > (1u << 30) ? (1u << 30) : len - o); ok &= EVP_CipherUpdate(c, out + o, &n, in + o, k); o += (size_t) k; }
        if (enc) { ok &= EVP_CipherFinal_ex(c, out + len, &n); ok &= EVP_CIPHER_CTX_ctrl(c, EVP_CTRL_GCM_GET_TAG, 16, tag); }
        else {
                /* recompute the tag by encrypting the recovered plaintext */
                EVP_CIPHER_CTX_free(c);
                uint8_t *tmp = malloc(len ? len : 1);
                int r = ossl_gcm(keybits, 1, key, iv, aad, aadlen, out, tmp, len, tag);
                free(tmp);
                return r;
        }
        EVP_CIPHER_CTX_free(c);
        return ok ? 0 : -1;
}
int ossl_xts(int keybits, int enc, const uint8_t *k1, const uint8_t *k2, const uint8_t *tweak, const uint8_t *in, uint8_t *out, size_t len)
{
        uint8_t key[64]; int kb = keybits / 8, n, ok = 1;
        memcpy(key, k1, (size_t) kb); memcpy(key + kb, k2, (size_t) kb);
        EVP_CIPHER_CTX *c = EVP_CIPHER_CTX_new();
        ok &= EVP_CipherInit_ex(c, keybits == 128 ? EVP_aes_128_xts() : EVP_aes_256_xts(), NULL, key, tweak, enc);
        ok &= EVP_CipherUpdate(c, out, &n, in, (int) len);
        ok &= EVP_CipherFinal_ex(c, out + n, &n);
        EVP_CIPHER_CTX_free(c);
        return ok ? 0 : -1;
}
int ossl_cbc(int keybits, int enc, const uint8_t *key, const uint8_t *iv, const uint8_t *in, uint8_t *out, size_t len)
{
        EVP_CIPHER_CTX *c = EVP_CIPHER_CTX_new(); int n, ok = 1;
        const EVP_CIPHER *ci = keybits == 128 ? EVP_aes_128_cbc() : keybits == 192 ? EVP_aes_192_cbc() : EVP_aes_256_cbc();
        ok &= EVP_CipherInit_ex(c, ci, NULL, key, iv, enc);
        EVP_CIPHER_CTX_set_padding(c, 0);
        ok &= EVP_CipherUpdate(c, out, &n, in, (int) len);
        EVP_CIPHER_CTX_free(c);
        return ok ? 0 : -1;
}
int ossl_hash(int alg, const void *p, size_t n, uint8_t *out)
{
        const EVP_MD *md = alg == REF_SHA1 ? EVP_sha1() : alg == REF_SHA256 ? EVP_sha256() : alg == REF_SHA512 ? EVP_sha512() : alg == REF_MD5 ? EVP_md5() : EVP_sm3();
        unsigned l;
        return EVP_Digest(p, n, out, &l, md, NULL) ? 0 : -1;
}
int oracle_crosscheck(void)
{
        rng_t r; rng_seed(&r, 0xc0ffee);
        uint8_t buf[700], key[64], iv[16], a[64], o1[700], o2[700], t1[16], t2[16];
        if (ref_selfcheck()) return 1;
        for (int it = 0; it < 40; it++) {
                size_t n = rng_below(&r, 600);
                rng_fill(&r, buf, sizeof buf); rng_fill(&r, key, 64); rng_fill(&r, iv, 16); rng_fill(&r, a, 64);
                for (int alg = 0; alg < REF_NALG; alg++) {
                        ref_hash(alg, buf, n, o1);
                        if (ossl_hash(alg, buf, n, o2) == 0 && memcmp(o1, o2, (size_t) ref_alg_dlen[alg])) return 10 + alg;
                }
                for (int ks = 0; ks < 2; ks++) {
                        ref_aes_t k1, k2; ref_aes_expand(&k1, key, ks_bits2[ks]); ref_aes_expand(&k2, key + 32, ks_bits2[ks]);
                        ref_gcm(&k1, 1, iv, a, n % 64, buf, o1, n, t1);
                        if (ossl_gcm(ks_bits2[ks], 1, key, iv, a, n % 64, buf, o2, n, t2) || memcmp(o1, o2, n) || memcmp(t1, t2, 16)) return 20 + ks;
                        if (n >= 16) {
                                ref_xts(&k1, &k2, 1, iv, buf, o1, n);
                                if (ossl_xts(ks_bits2[ks], 1, key, key + 32, iv, buf, o2, n) || memcmp(o1, o2, n)) return 30 + ks;
                                ref_xts(&k1, &k2, 0, iv, buf, o1, n);
                                if (ossl_xts(ks_bits2[ks], 0, key, key + 32, iv, buf, o2, n) || memcmp(o1, o2, n)) return 32 + ks;
                        }
                }
                for (int ks = 0; ks < 3; ks++) {
                        ref_aes_t k; ref_aes_expand(&k, key, ks_bits3[ks]);
                        size_t m = n & ~(size_t) 15;
                        ref_cbc_enc(&k, iv, buf, o1, m);
                        if (ossl_cbc(ks_bits3[ks], 1, key, iv, buf, o2, m) || memcmp(o1, o2, m)) return 40 + ks;
                        ref_cbc_dec(&k, iv, buf, o1, m);
                        if (ossl_cbc(ks_bits3[ks], 0, key, iv, buf, o2, m) || memcmp(o1, o2, m)) return 43 + ks;
                }
        }
        return 0;
}
