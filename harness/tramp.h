/* Register/stack trampoline: calls a function with chosen "hidden" machine state and
 * captures the full state right after it returns. Single-threaded. */
#ifndef VERIF_TRAMP_H
#define VERIF_TRAMP_H
#include "common.h"

typedef struct {
        uint64_t gpr;           /* value of every caller-saved GPR that is not an argument */
        uint8_t vec[64];        /* loaded into zmm0-31 */
        uint64_t k;             /* k0-7 */
        uint64_t flags;         /* arithmetic flags to set (CF PF AF ZF SF OF subset) */
        uint8_t stack;          /* fill byte of the dead zone */
        uint64_t upper32;       /* OR-ed into the upper half of 32-bit arguments (see T_ARG32) */
} tramp_hidden_t;
extern const tramp_hidden_t tramp_hidden_A, tramp_hidden_B;
void tramp_hidden_random(tramp_hidden_t *h, rng_t *r);

/* captured state (valid after tramp_invoke) */
extern uint64_t tramp_cap[16];          /* rax rbx rcx rdx rsi rdi rbp rsp r8..r15 */
extern uint64_t tramp_cap_flags, tramp_cap_k[8];
extern uint32_t tramp_cap_mxcsr; extern uint16_t tramp_cap_fcw;
extern uint8_t tramp_cap_zmm[32][64];

void tramp_init(void);
extern unsigned tramp_stack_shift;      /* 0..7: lowers the callee's entry rsp by 16-byte steps */
/* args[0..nargs): integer/pointer arguments (first six in registers, rest on the stack).
 * is32 bit i set: argument i is a 32-bit quantity (int/uint32_t) whose upper half is unspecified by the ABI. */
uint64_t tramp_invoke(void *fn, int nargs, const uint64_t *args, unsigned is32, const tramp_hidden_t *h);
/* C19: 0 if the callee-saved state is intact, else a description in why */
int tramp_abi_ok(char *why, size_t n);
/* C14: search a 16-byte block in all vector registers (16-byte lanes) and in the 64 KiB below the stack pointer */
typedef struct { const uint8_t *blk; const char *name; } needle_t;
int tramp_scan(const needle_t *nd, int n, char *where, size_t wn);      /* index of the first needle found or -1 */
uint64_t tramp_calls(void);
/* names of the functions invoked so far (dladdr), printed as a JSON line {"t":"called","names":[...]} */
void tramp_emit_called(void);
#endif
