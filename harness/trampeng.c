/* trampeng - scenarios driven through the register/stack trampoline.
 *   --mode abi     C19: callee-saved state after every call
 *   --mode secrets C14: key material in vector registers / dead stack after AES calls
 *   --mode hidden  C20: same scenario under different hidden machine/memory state must be observably identical
 *   --what hash | hashjob | gcm | xts | cbc | mh | rolling | misc */
#include "hashalgs.h"
#include "aesfam.h"
#include "tramp.h"
#include <dlfcn.h>
#include <isal_crypto_api.h>
#include <multi_buffer.h>
#include <aes_gcm.h>
#include <aes_cbc.h>
#include <aes_xts.h>
#include <mh_sha1.h>
#include <mh_sha256.h>
#include <mh_sha1_murmur3_x64_128.h>
#include <rolling_hashx.h>
#include <sha1_mb.h>
#include <sha256_mb.h>
#include <sha512_mb.h>
#include <md5_mb.h>
#include <sm3_mb.h>

enum { M_ABI, M_SECRETS, M_HIDDEN };
enum { R_FAM, R_ISAL, R_LEGACY, R_ENTRY };
static const char *const route_name[] = { "fam", "isal", "legacy", "entry" };
static int mode;
static tramp_hidden_t H;
static uint64_t obs;                    /* observable outputs of the scenario (hidden mode) */
static char rbuf[400];
static needle_t needles[256]; static int nneed;
static uint8_t needle_store[256][16];
static char scen[160];                  /* scenario description for messages */

static const char *fname(void *fn) { return sym_name(fn); }
static void O(const void *p, size_t n) { const uint8_t *b = p; for (size_t i = 0; i < n; i++) obs = mix64(obs, b[i]); obs = mix64(obs, n); }
static void O64(uint64_t v) { obs = mix64(obs, v); }

static void after(void *fn, const char *cls)
{
        out_count("tramp_calls", 1);
        { static int nsamp;     /* evidence: the first trampoline calls of this worker, written out */
          if (nsamp < 40) { nsamp++; clog_on = 1;
                if (mode == M_ABI) {
                        clog_title("calls through the assembly trampoline: sentinels in rbx rbp r12-r15, canary words above the callee's frame, non-default MXCSR and x87 control word, entry rsp lowered by 16 x shift; full register file captured at return");
                        clog_event("%s (%s; %s) shift=%u: returned rax=%llx rbx=%llx rbp=%llx r12=%llx r15=%llx mxcsr=%x fcw=%x DF=%d", fname(fn), scen, cls, tramp_stack_shift, (unsigned long long) tramp_cap[0], (unsigned long long) tramp_cap[1],
                                   (unsigned long long) tramp_cap[6], (unsigned long long) tramp_cap[12], (unsigned long long) tramp_cap[15], tramp_cap_mxcsr, tramp_cap_fcw, (int) (tramp_cap_flags >> 10 & 1));
                } else if (mode == M_SECRETS) {
                        clog_title("after each call the captured zmm0-31 (16-byte lanes) and the 64 KiB below the stack pointer are searched for reference-computed secret blocks (round keys, hash-key powers, E_K2(T), ...)");
                        clog_event("%s (%s; %s): %d secret blocks searched%s%s", fname(fn), scen, cls, nneed, nneed ? ", e.g. " : "", nneed ? needles[nneed - 1].name : "");
                } else {
                        clog_title("each scenario is executed three times with identical declared inputs and different hidden state (caller-saved registers, zmm/k registers, flags, dead stack fill, output prefill, uninitialised object bytes); the hash of all observable outputs must agree");
                        clog_event("%s (%s; %s): hidden gpr=%llx stack fill=%02x flags=%llx -> running hash of observable outputs %016llx", fname(fn), scen, cls, (unsigned long long) H.gpr, H.stack, (unsigned long long) H.flags, (unsigned long long) obs);
                }
                clog_on = 0; } }
        if (mode == M_ABI) {
                char why[200];
                if (!tramp_abi_ok(why, sizeof why)) {
                        char key[300]; snprintf(key, sizeof key, "abi %s %s", fname(fn), why);
                        /* keep the key stable: strip numbers after '=' */
                        for (char *p = key; *p; p++) if (*p == '=' ) { char *q = p + 1; while (*q && *q != ' ') q++; memmove(p, q, strlen(q) + 1); }
                        out_viol("C19", key, rbuf, "%s returned with callee-saved state damaged: %s(%s; %s)", fname(fn), why, scen, cls);
                }
                feat(mix64((uint64_t) (uintptr_t) fn, mix64(0xab1, (uint64_t) cls[0] * 131 + (uint64_t) strlen(cls) + (uint64_t) cls[strlen(cls) - 1] * 7)));
        } else if (mode == M_SECRETS && nneed) {
                char where[64];
                int k = tramp_scan(needles, nneed, where, sizeof where);
                if (k >= 0) {
                        char key[300];
                        /* key on the function, the kind of secret and registers-vs-stack (register numbers and stack offsets vary by path) */
                        snprintf(key, sizeof key, "secret %s %s in %s", fname(fn), needles[k].name, !strncmp(where, "stack", 5) ? "dead stack" : "vector registers");
                        out_viol("C14", key, rbuf, "after %s returned, %s is present in %s (%s; %s)", fname(fn), needles[k].name, where, scen, cls);
                }
                feat(mix64((uint64_t) (uintptr_t) fn, mix64(0x5ec, (uint64_t) cls[0] * 131 + (uint64_t) strlen(cls) + (uint64_t) cls[strlen(cls) - 1] * 7)));
        }
}
static rng_t shift_rng;
#define T(fn, is32, cls, ...) ({ uint64_t a_[] = { __VA_ARGS__ }; tramp_stack_shift = mode == M_HIDDEN ? 0 : rng_below(&shift_rng, 8); LABEL("%s (%s)", fname((void *) (fn)), scen); uint64_t r_ = tramp_invoke((void *) (fn), (int) (sizeof a_ / 8), a_, is32, &H); cur_label[0] = 0; after((void *) (fn), cls); r_; })
#define U(x) ((uint64_t) (uintptr_t) (x))

static void add_needle(const void *blk, const char *name)
{
        static const uint8_t z[16];
        if (nneed >= 256 || !memcmp(blk, z, 16)) return;
        int same = 1; for (int i = 1; i < 16; i++) if (((const uint8_t *) blk)[i] != ((const uint8_t *) blk)[0]) same = 0;
        if (same) return;
        memcpy(needle_store[nneed], blk, 16);
        needles[nneed].blk = needle_store[nneed]; needles[nneed].name = name; nneed++;
}
static void aes_needles(const uint8_t *key, int bits, int with_dec)
{
        ref_aes_t a; ref_aes_expand(&a, key, bits);
        add_needle(key, "raw key");
        if (bits > 128) { uint8_t t[16] = { 0 }; memcpy(t, key + 16, (size_t) (bits / 8 - 16)); if (bits == 256) add_needle(key + 16, "raw key (second half)"); }
        for (int i = 0; i <= a.nr; i++) add_needle(a.enc[i], "encryption round key");
        if (with_dec) for (int i = 0; i <= a.nr; i++) add_needle(a.dec[i], "decryption round key");
}

/* arena with stable addresses across paired runs */
static uint8_t *arena; static size_t aoff;
static uint8_t *AL(size_t n, size_t align, int junk)
{
        aoff = (aoff + align - 1) & ~(align - 1);
        uint8_t *p = arena + aoff; aoff += n + 64;
        if (aoff > (8u << 20)) out_err("trampeng arena exhausted");
        if (junk) memset(p, H.vec[0] ^ 0x3c, n);       /* uninitialised object memory / output prefill follows the hidden pattern */
        return p;
}

/* ------------------------------------------------------------------ hashes (ctx level) */
static void scen_hash(const halg_t *a, const hfam_t *f, int route, rng_t *r)
{
        snprintf(scen, sizeof scen, "%s %s %s", a->name, f->name, route_name[route]);
        uint8_t *mgr = AL(a->mgr_size, 64, 1);
        int nctx = 1 + (int) rng_below(r, (uint32_t) (f->lanes > 16 ? 18 : f->lanes + 2));
        uint8_t *ctx[40]; uint8_t *msg[40]; uint32_t mlen[40];
        void *fi = route == R_FAM ? (void *) f->init : route == R_ISAL ? (void *) a->i_init : route == R_LEGACY ? (void *) a->l_init : a->entry[0];
        void *fs = route == R_FAM ? (void *) f->submit : route == R_ISAL ? (void *) a->i_submit : route == R_LEGACY ? (void *) a->l_submit : a->entry[1];
        void *ff = route == R_FAM ? (void *) f->flush : route == R_ISAL ? (void *) a->i_flush : route == R_LEGACY ? (void *) a->l_flush : a->entry[2];
        T(fi, 0, "init", U(mgr));
        for (int i = 0; i < nctx; i++) {
                ctx[i] = AL(a->ctx_size, 64, 1);
                a->ctx_init(ctx[i]);
                static const uint32_t cls[] = { 0, 1, 55, 56, 63, 64, 65, 111, 112, 127, 128, 129, 200, 1000, 4096 + 17 };
                mlen[i] = rng_below(r, 3) ? cls[rng_below(r, sizeof cls / sizeof cls[0])] : rng_below(r, 3000);
                msg[i] = AL(mlen[i] + 1, 1, 0); rng_fill(r, msg[i], mlen[i]);
        }
        void *out = NULL;
        /* phase 1: FIRST parts (or ENTIRE), phase 2: LAST parts, flushes in between */
        uint32_t cut[40];
        for (int i = 0; i < nctx; i++) {
                int entire = (int) rng_below(r, 2);
                cut[i] = entire ? mlen[i] : rng_below(r, mlen[i] + 1);
                int flags = entire ? ISAL_HASH_ENTIRE : ISAL_HASH_FIRST;
                char cls[40]; snprintf(cls, sizeof cls, "submit lanes=%d", i < f->lanes ? i : f->lanes);
                if (route == R_ISAL) { O64((uint32_t) T(fs, 0x30, cls, U(mgr), U(ctx[i]), U(&out), U(msg[i]), cut[i], (uint64_t) flags)); }
                else out = (void *) T(fs, route == R_LEGACY ? 0x18 : 0, cls, U(mgr), U(ctx[i]), U(msg[i]), cut[i], (uint64_t) flags);
                O64(out ? (uint64_t) (((uint8_t *) out - arena)) : ~0ULL);
                if (entire) cut[i] = ~0u;
                if (rng_below(r, 6) == 0) {
                        if (route == R_ISAL) O64((uint32_t) T(ff, 0, "flush mid", U(mgr), U(&out))); else out = (void *) T(ff, 0, "flush mid", U(mgr));
                        O64(out ? (uint64_t) (((uint8_t *) out - arena)) : ~0ULL);
                }
        }
        /* a rejected submit (error exit path) */
        {
                int i = (int) rng_below(r, (uint32_t) nctx);
                if (route == R_ISAL) O64((uint32_t) T(fs, 0x30, "submit rejected", U(mgr), U(ctx[i]), U(&out), U(msg[i]), 5, 0x44ULL));
                else out = (void *) T(fs, route == R_LEGACY ? 0x18 : 0, "submit rejected", U(mgr), U(ctx[i]), U(msg[i]), 5, 0x44ULL);
        }
        for (int guard = 0; guard < 200; guard++) {
                /* continue every idle context with LAST, draining with flush when nothing is idle */
                int did = 0;
                for (int i = 0; i < nctx; i++) {
                        int st = *(int32_t *) (ctx[i] + a->off_status);
                        if (st == ISAL_HASH_CTX_STS_IDLE && cut[i] != ~0u) {
                                if (route == R_ISAL) O64((uint32_t) T(fs, 0x30, "submit last", U(mgr), U(ctx[i]), U(&out), U(msg[i] + cut[i]), mlen[i] - cut[i], (uint64_t) ISAL_HASH_LAST));
                                else out = (void *) T(fs, route == R_LEGACY ? 0x18 : 0, "submit last", U(mgr), U(ctx[i]), U(msg[i] + cut[i]), mlen[i] - cut[i], (uint64_t) ISAL_HASH_LAST);
                                O64(out ? (uint64_t) (((uint8_t *) out - arena)) : ~0ULL);
                                cut[i] = ~0u; did = 1;
                        }
                }
                if (did) continue;
                if (route == R_ISAL) O64((uint32_t) T(ff, 0, "flush drain", U(mgr), U(&out))); else out = (void *) T(ff, 0, "flush drain", U(mgr));
                O64(out ? (uint64_t) (((uint8_t *) out - arena)) : ~0ULL);
                if (!out) break;
        }
        for (int i = 0; i < nctx; i++) { O(ctx[i] + a->off_digest, (size_t) a->dbytes); O(ctx[i] + a->off_status, 4); O(ctx[i] + a->off_error, 4); }
}

/* ------------------------------------------------------------------ hashes (job level asm managers) */
typedef struct { const char *alg, *fam; void *init, *submit, *flush; size_t mgr_size, job_size, off_buf, off_len, off_digest; int len_size, block, lanes; const halg_t *a; } jobmgr_t;
#pragma GCC diagnostic ignored "-Wstrict-prototypes"
#define JD(alg, f) extern void _##alg##_mb_mgr_init_##f(); extern void *_##alg##_mb_mgr_submit_##f(), *_##alg##_mb_mgr_flush_##f();
#define JDI(alg, f) extern void _##alg##_mb_mgr_init_##f();
#define JDS(alg, f) extern void *_##alg##_mb_mgr_submit_##f(), *_##alg##_mb_mgr_flush_##f();
JDI(sha1, sse) JDI(sha1, avx2) JDI(sha1, avx512) JDS(sha1, sse) JDS(sha1, avx) JDS(sha1, avx2) JDS(sha1, avx512) JDS(sha1, sse_ni)
extern void *_sha1_mb_mgr_flush_avx512_ni(), *_sha256_mb_mgr_flush_avx512_ni();
JDI(sha256, sse) JDI(sha256, avx2) JDI(sha256, avx512) JDS(sha256, sse) JDS(sha256, avx) JDS(sha256, avx2) JDS(sha256, avx512) JDS(sha256, sse_ni)
JDI(sha512, sse) JDI(sha512, avx2) JDI(sha512, avx512) JDS(sha512, sse) JDS(sha512, avx) JDS(sha512, avx2) JDS(sha512, avx512)
JDI(md5, sse) JDI(md5, avx2) JDI(md5, avx512) JDS(md5, sse) JDS(md5, avx) JDS(md5, avx2) JDS(md5, avx512)
JDI(sm3, avx2) JDI(sm3, avx512) JDS(sm3, avx2) JDS(sm3, avx512)
extern void _sha512_sb_mgr_init_sse4(); extern void *_sha512_sb_mgr_submit_sse4(), *_sha512_sb_mgr_flush_sse4();
extern void _sha512_sse4();
#define JM(alg, ALG, fam, ini, sub, flu, L) { #alg, #fam, ini, sub, flu, sizeof(ISAL_##ALG##_MB_JOB_MGR), sizeof(ISAL_##ALG##_JOB), offsetof(ISAL_##ALG##_JOB, buffer), offsetof(ISAL_##ALG##_JOB, len), offsetof(ISAL_##ALG##_JOB, result_digest), (int) sizeof(((ISAL_##ALG##_JOB *) 0)->len), 0, L, NULL }
static jobmgr_t jobmgrs[] = {
        JM(sha1, SHA1, sse, _sha1_mb_mgr_init_sse, _sha1_mb_mgr_submit_sse, _sha1_mb_mgr_flush_sse, 4), JM(sha1, SHA1, avx, _sha1_mb_mgr_init_sse, _sha1_mb_mgr_submit_avx, _sha1_mb_mgr_flush_avx, 4),
        JM(sha1, SHA1, avx2, _sha1_mb_mgr_init_avx2, _sha1_mb_mgr_submit_avx2, _sha1_mb_mgr_flush_avx2, 8), JM(sha1, SHA1, avx512, _sha1_mb_mgr_init_avx512, _sha1_mb_mgr_submit_avx512, _sha1_mb_mgr_flush_avx512, 16),
        JM(sha1, SHA1, sse_ni, _sha1_mb_mgr_init_sse, _sha1_mb_mgr_submit_sse_ni, _sha1_mb_mgr_flush_sse_ni, 4), JM(sha1, SHA1, avx512_ni, _sha1_mb_mgr_init_avx512, _sha1_mb_mgr_submit_avx512, _sha1_mb_mgr_flush_avx512_ni, 16),
        JM(sha256, SHA256, sse, _sha256_mb_mgr_init_sse, _sha256_mb_mgr_submit_sse, _sha256_mb_mgr_flush_sse, 4), JM(sha256, SHA256, avx, _sha256_mb_mgr_init_sse, _sha256_mb_mgr_submit_avx, _sha256_mb_mgr_flush_avx, 4),
        JM(sha256, SHA256, avx2, _sha256_mb_mgr_init_avx2, _sha256_mb_mgr_submit_avx2, _sha256_mb_mgr_flush_avx2, 8), JM(sha256, SHA256, avx512, _sha256_mb_mgr_init_avx512, _sha256_mb_mgr_submit_avx512, _sha256_mb_mgr_flush_avx512, 16),
        JM(sha256, SHA256, sse_ni, _sha256_mb_mgr_init_sse, _sha256_mb_mgr_submit_sse_ni, _sha256_mb_mgr_flush_sse_ni, 4), JM(sha256, SHA256, avx512_ni, _sha256_mb_mgr_init_avx512, _sha256_mb_mgr_submit_avx512, _sha256_mb_mgr_flush_avx512_ni, 16),
        JM(sha512, SHA512, sse, _sha512_mb_mgr_init_sse, _sha512_mb_mgr_submit_sse, _sha512_mb_mgr_flush_sse, 2), JM(sha512, SHA512, avx, _sha512_mb_mgr_init_sse, _sha512_mb_mgr_submit_avx, _sha512_mb_mgr_flush_avx, 2),
        JM(sha512, SHA512, avx2, _sha512_mb_mgr_init_avx2, _sha512_mb_mgr_submit_avx2, _sha512_mb_mgr_flush_avx2, 4), JM(sha512, SHA512, avx512, _sha512_mb_mgr_init_avx512, _sha512_mb_mgr_submit_avx512, _sha512_mb_mgr_flush_avx512, 8),
        JM(sha512, SHA512, sb_sse4, _sha512_sb_mgr_init_sse4, _sha512_sb_mgr_submit_sse4, _sha512_sb_mgr_flush_sse4, 1),
        JM(md5, MD5, sse, _md5_mb_mgr_init_sse, _md5_mb_mgr_submit_sse, _md5_mb_mgr_flush_sse, 8), JM(md5, MD5, avx, _md5_mb_mgr_init_sse, _md5_mb_mgr_submit_avx, _md5_mb_mgr_flush_avx, 8),
        JM(md5, MD5, avx2, _md5_mb_mgr_init_avx2, _md5_mb_mgr_submit_avx2, _md5_mb_mgr_flush_avx2, 16), JM(md5, MD5, avx512, _md5_mb_mgr_init_avx512, _md5_mb_mgr_submit_avx512, _md5_mb_mgr_flush_avx512, 32),
        JM(sm3, SM3, avx2, _sm3_mb_mgr_init_avx2, _sm3_mb_mgr_submit_avx2, _sm3_mb_mgr_flush_avx2, 8), JM(sm3, SM3, avx512, _sm3_mb_mgr_init_avx512, _sm3_mb_mgr_submit_avx512, _sm3_mb_mgr_flush_avx512, 16),
};
#define NJOBMGR ((int) (sizeof jobmgrs / sizeof jobmgrs[0]))

static void scen_hashjob(jobmgr_t *j, rng_t *r)
{
        snprintf(scen, sizeof scen, "%s job manager %s", j->alg, j->fam);
        const halg_t *a = halg_by_name(j->alg);
        uint8_t *mgr = AL(j->mgr_size, 64, 1);
        T(j->init, 0, "init", U(mgr));
        int njobs = 1 + (int) rng_below(r, (uint32_t) (2 * j->lanes + 2));
        /* initial digests the way the ctx layer sets them: run one ENTIRE zero-length... simpler: take them from a FIRST submit of an empty segment through the base family */
        uint8_t *ivctx = AL(a->ctx_size, 64, 1), *ivmgr = AL(a->mgr_size, 64, 1);
        a->ctx_init(ivctx); a->fam[0].init(ivmgr); a->fam[0].submit(ivmgr, ivctx, "", 0, ISAL_HASH_FIRST);
        for (int i = 0; i < njobs; i++) {
                uint8_t *job = AL(j->job_size, 64, 1);
                uint32_t nblk = 1 + (rng_below(r, 3) ? rng_below(r, 4) : rng_below(r, 40));
                uint8_t *data = AL((size_t) nblk * (size_t) a->block, 1, 0); rng_fill(r, data, (size_t) nblk * (size_t) a->block);
                *(uint8_t **) (job + j->off_buf) = data;
                if (j->len_size == 4) *(uint32_t *) (job + j->off_len) = nblk; else *(uint64_t *) (job + j->off_len) = nblk;
                memcpy(job + j->off_digest, ivctx + a->off_digest, (size_t) a->dbytes);
                char cls[40]; snprintf(cls, sizeof cls, "job submit lanes=%d", i < j->lanes ? i : j->lanes);
                uint8_t *ret = (uint8_t *) T(j->submit, 0, cls, U(mgr), U(job));
                O64(ret ? (uint64_t) (ret - arena) : ~0ULL);
                if (ret) O(ret + j->off_digest, (size_t) a->dbytes);
        }
        for (int g = 0; g < 80; g++) {
                uint8_t *ret = (uint8_t *) T(j->flush, 0, "job flush", U(mgr));
                O64(ret ? (uint64_t) (ret - arena) : ~0ULL);
                if (!ret) break;
                O(ret + j->off_digest, (size_t) a->dbytes);
        }
}

/* ------------------------------------------------------------------ GCM */
static const uint32_t gcm_lens[] = { 0, 1, 15, 16, 17, 31, 32, 47, 48, 63, 64, 65, 79, 80, 96, 111, 112, 127, 128, 129, 143, 144, 191, 192, 255, 256, 257, 300, 511, 512, 513, 767, 768, 769, 800, 1023, 1024, 1535, 1536, 1600, 2048, 3071, 3072, 4096 };
static void scen_gcm(const gcmfam_t *f, int route, rng_t *r)
{
        int ks = (int) rng_below(r, 2), nt = rng_below(r, 4) == 0;
        uint32_t len = gcm_lens[rng_below(r, sizeof gcm_lens / sizeof gcm_lens[0])], aadlen = rng_below(r, 3) ? rng_below(r, 40) : rng_below(r, 300);
        if (rng_below(r, 6) == 0) aadlen = 0;           /* the empty AAD and the empty message have their own branches: reach them, and both at once, often */
        if (rng_below(r, 8) == 0) len = 0;
        static const uint32_t tl[3] = { 8, 12, 16 }; uint32_t taglen = tl[rng_below(r, 3)];
        snprintf(scen, sizeof scen, "gcm%d %s %s%s len=%u aad=%u tag=%u", ks_bits2[ks], f->name, route_name[route], nt ? " nt" : "", len, aadlen, taglen);
        uint8_t key[32]; rng_fill(r, key, 32);
        uint8_t *kd = AL(sizeof(struct isal_gcm_key_data), 64, 1), *ctx = AL(sizeof(struct isal_gcm_context_data), 16, 1);
        uint8_t *keyb = AL(32, 16, 0); memcpy(keyb, key, 32);
        uint8_t *in = AL(len, 64, 0), *out = AL(len, 64, 1), *back = AL(len, 64, 1), *iv = AL(12, 16, 0), *aad = AL(aadlen, 16, 0), *tag = AL(16, 16, 1);
        rng_fill(r, in, len); rng_fill(r, iv, 12); rng_fill(r, aad, aadlen);
        nneed = 0;
        if (mode == M_SECRETS) {
                aes_needles(key, ks_bits2[ks], 1);
                ref_aes_t a; ref_aes_expand(&a, key, ks_bits2[ks]);
                uint8_t h[16] = { 0 }, hr[16]; ref_aes_enc(&a, h, h);
                add_needle(h, "GHASH key H");
                for (int i = 0; i < 16; i++) hr[i] = h[15 - i];
                add_needle(hr, "GHASH key H (byte-reflected)");
        }
        const gcm_set_t *S = route == R_FAM ? &f->s : route == R_LEGACY ? &gcm_legacy.s : &gcm_entries;
        /* key setup */
        if (route == R_ISAL) O64((uint32_t) T(gcm_isal.pre[ks], 0, "pre", U(keyb), U(kd)));
        else if (route == R_LEGACY) T(gcm_legacy.pre[ks], 0, "pre", U(keyb), U(kd));
        else if (route == R_ENTRY) { T(gcm_pre_internal[ks], 0, "pre", U(keyb), U(kd)); T(S->precomp[ks], 0, "precomp", U(kd)); }
        else {
                ref_aes_t a; ref_aes_expand(&a, key, ks_bits2[ks]);
                memcpy(kd, a.enc, (size_t) 16 * (a.nr + 1));
                T(S->precomp[ks], 0, "precomp", U(kd));
        }
        if (mode == M_SECRETS) for (size_t o = 16 * 15; o + 16 <= sizeof(struct isal_gcm_key_data); o += 16) add_needle(kd + o, "hash-key table entry (H^n form stored by precompute)");
        /* one-shot enc, dec */
        for (int dir = 0; dir < 2; dir++) {
                uint8_t *src = dir ? out : in, *dst = dir ? back : out;
                if (route == R_ISAL) O64((uint32_t) T(gcm_isal.one[ks][dir][nt], 0, dir ? "dec" : "enc", U(kd), U(ctx), U(dst), U(src), len, U(iv), U(aad), aadlen, U(tag), taglen));
                else T(S->one[ks][dir][nt], 0, dir ? "dec" : "enc", U(kd), U(ctx), U(dst), U(src), len, U(iv), U(aad), aadlen, U(tag), taglen);
                O(dst, len); O(tag, taglen);
        }
        /* streaming */
        for (int dir = 0; dir < 2; dir++) {
                uint8_t *src = dir ? out : in, *dst = dir ? back : out;
                if (route == R_ISAL) O64((uint32_t) T(gcm_isal.init[ks], 0, "init", U(kd), U(ctx), U(iv), U(aad), aadlen)); else T(S->init[ks], 0, "init", U(kd), U(ctx), U(iv), U(aad), aadlen);
                uint32_t off = 0;
                for (int p = 0; p < 4 && (off < len || p == 0); p++) {
                        uint32_t k = p == 3 ? len - off : nt ? (rng_below(r, (len - off) / 64 + 1) * 64) : rng_below(r, len - off + 1);
                        char cls[32]; snprintf(cls, sizeof cls, "update carried=%u k=%u", off & 15, k > 999 ? 999 : k);
                        if (route == R_ISAL) O64((uint32_t) T(gcm_isal.upd[ks][dir][nt], 0, cls, U(kd), U(ctx), U(dst + off), U(src + off), k)); else T(S->upd[ks][dir][nt], 0, cls, U(kd), U(ctx), U(dst + off), U(src + off), k);
                        off += k;
                }
                if (off < len) { if (route == R_ISAL) T(gcm_isal.upd[ks][dir][0], 0, "update rest", U(kd), U(ctx), U(dst + off), U(src + off), len - off); else T(S->upd[ks][dir][0], 0, "update rest", U(kd), U(ctx), U(dst + off), U(src + off), len - off); }
                if (route == R_ISAL) O64((uint32_t) T(gcm_isal.fin[ks][dir], 0, "finalize", U(kd), U(ctx), U(tag), taglen)); else T(S->fin[ks][dir], 0, "finalize", U(kd), U(ctx), U(tag), taglen);
                O(dst, len); O(tag, taglen);
        }
}

/* ------------------------------------------------------------------ XTS / CBC / keyexp */
static const uint32_t xts_lens[] = { 0, 5, 15, 16, 17, 31, 32, 33, 47, 48, 63, 64, 65, 80, 95, 96, 111, 112, 127, 128, 129, 130, 143, 144, 159, 160, 255, 256, 257, 272, 400, 511, 512, 513, 1024, 1031, 2048, 4096, 4099 };
static void scen_xts(const xtsfam_t *f, int route, rng_t *r)
{
        int ks = (int) rng_below(r, 2), dir = (int) rng_below(r, 2), xp = (int) rng_below(r, 2);
        uint32_t len = xts_lens[rng_below(r, sizeof xts_lens / sizeof xts_lens[0])];
        snprintf(scen, sizeof scen, "xts%d %s %s %s%s len=%u", ks_bits2[ks], f->name, route_name[route], dir ? "dec" : "enc", xp ? " expanded" : "", len);
        uint8_t key1[32], key2[32], tw[16]; rng_fill(r, key1, 32); rng_fill(r, key2, 32); rng_fill(r, tw, 16);
        ref_aes_t a1, a2; ref_aes_expand(&a1, key1, ks_bits2[ks]); ref_aes_expand(&a2, key2, ks_bits2[ks]);
        uint8_t *k1 = AL(240, 16, 0), *k2 = AL(240, 16, 0), *twb = AL(16, 16, 0), *in = AL(len, 64, 0), *out = AL(len, 64, 1);
        if (xp) { memcpy(k1, dir ? a1.dec : a1.enc, 240); memcpy(k2, a2.enc, 240); } else { memcpy(k1, key1, 32); memcpy(k2, key2, 32); }
        memcpy(twb, tw, 16); rng_fill(r, in, len);
        nneed = 0;
        if (mode == M_SECRETS) {
                aes_needles(key1, ks_bits2[ks], 1); aes_needles(key2, ks_bits2[ks], 0);
                uint8_t et[16]; ref_aes_enc(&a2, tw, et); add_needle(et, "encrypted tweak E_K2(T)");
                /* the per-block tweaks E_K2(T) x alpha^j are equally secret (multiplication by alpha is invertible) */
                for (int j = 1; j <= 31; j++) {
                        int carry = et[15] >> 7;
                        for (int b = 15; b > 0; b--) et[b] = (uint8_t) (et[b] << 1 | et[b - 1] >> 7);
                        et[0] = (uint8_t) (et[0] << 1) ^ (carry ? 0x87 : 0);
                        add_needle(et, "per-block tweak E_K2(T) x alpha^j");
                }
        }
        void *fn = route == R_FAM ? (void *) f->f[ks][dir][xp] : route == R_ISAL ? (void *) xts_isal[ks][dir][xp] : route == R_LEGACY ? (void *) xts_legacy[ks][dir][xp] : (void *) xts_entries[ks][dir][xp];
        uint64_t rv = T(fn, 0, len < 16 ? "short" : (len & 15) ? "steal" : "whole", U(k2), U(k1), U(twb), len, U(in), U(out));
        if (route == R_ISAL) O64((uint32_t) rv);
        if (len >= 16) O(out, len);     /* below 16 bytes the output is not defined (and must not be touched) */
}
static const uint32_t cbc_blocks[] = { 1, 2, 3, 4, 5, 6, 7, 8, 9, 10, 11, 12, 13, 15, 16, 17, 23, 24, 25, 31, 32, 33, 47, 48, 64, 100, 256 };
static void scen_cbc(int ci, int route, rng_t *r)
{
        static const struct { int e, d, kx; } combos[3] = { { 0, 0, 0 }, { 1, 1, 1 }, { 1, 2, 1 } };
        int ks = (int) rng_below(r, 3), dir = (int) rng_below(r, 2);
        uint32_t len = 16 * cbc_blocks[rng_below(r, sizeof cbc_blocks / sizeof cbc_blocks[0])];
        if (route != R_FAM && route != R_ENTRY && rng_below(r, 10) == 0) len = 0;
        const char *famn = dir ? cbc_dec_fams[combos[ci].d].name : cbc_enc_fams[combos[ci].e].name;
        snprintf(scen, sizeof scen, "cbc%d %s %s %s len=%u", ks_bits3[ks], dir ? "dec" : "enc", famn, route_name[route], len);
        uint8_t key[32], ivv[16]; rng_fill(r, key, 32); rng_fill(r, ivv, 16);
        ref_aes_t a; ref_aes_expand(&a, key, ks_bits3[ks]);
        uint8_t *keys = AL(240, 16, 0), *iv = AL(16, 16, 0), *in = AL(len, 64, 0), *out = AL(len, 64, 1), *kb = AL(32, 16, 0), *e = AL(240, 16, 1), *d = AL(240, 16, 1);
        memcpy(keys, dir ? a.dec : a.enc, 240); memcpy(iv, ivv, 16); rng_fill(r, in, len); memcpy(kb, key, 32);
        nneed = 0;
        if (mode == M_SECRETS) aes_needles(key, ks_bits3[ks], 1);
        void *fn;
        if (!dir) fn = route == R_FAM ? (void *) cbc_enc_fams[combos[ci].e].f[ks] : route == R_ISAL ? (void *) cbc_enc_isal[ks] : route == R_LEGACY ? (void *) cbc_enc_legacy[ks] : (void *) cbc_enc_entries[ks];
        else fn = route == R_FAM ? (void *) cbc_dec_fams[combos[ci].d].f[ks] : route == R_ISAL ? (void *) cbc_dec_isal[ks] : route == R_LEGACY ? (void *) cbc_dec_legacy[ks] : (void *) cbc_dec_entries[ks];
        char cls[32]; snprintf(cls, sizeof cls, "blocks mod8=%u %s", (len / 16) & 7, len / 16 > 8 ? "long" : "short");
        uint64_t rv = T(fn, 0, cls, U(in), U(iv), U(keys), U(out), len);
        if (route == R_ISAL) O64((uint32_t) rv);
        O(out, len);
        /* key expansion */
        snprintf(scen, sizeof scen, "keyexp%d %s %s", ks_bits3[ks], keyexp_fams[combos[ci].kx].name, route_name[route]);
        fn = route == R_FAM ? (void *) keyexp_fams[combos[ci].kx].f[ks] : route == R_ISAL ? (void *) keyexp_isal[ks] : route == R_LEGACY ? (void *) keyexp_legacy[ks] : (void *) keyexp_entries[ks];
        rv = T(fn, 0, "keyexp", U(kb), U(e), U(d));
        if (route == R_ISAL) O64((uint32_t) rv);
        O(e, (size_t) 16 * (a.nr + 1)); O(d, (size_t) 16 * (a.nr + 1));
        if (ks == 0 && (route == R_FAM || route == R_ENTRY)) { T(route == R_FAM ? (void *) keyexp_fams[combos[ci].kx].enc128 : (void *) keyexp_enc128_entry, 0, "keyexp enc-only", U(kb), U(e)); O(e, 176); }
        if (route == R_LEGACY) {
                struct isal_cbc_key_data *kdat = (void *) AL(sizeof(struct isal_cbc_key_data), 16, 1);
                extern int aes_cbc_precomp();
                snprintf(scen, sizeof scen, "aes_cbc_precomp %d", ks_bits3[ks]);
                T(aes_cbc_precomp, 0x2, "precomp", U(kb), (uint64_t) (ks == 0 ? 16 : ks == 1 ? 24 : 32), U(kdat));
                O(kdat, (size_t) 16 * (a.nr + 1));
        }
}

/* ------------------------------------------------------------------ multi-hash */
#define MHD(alg) extern int _##alg##_update_base(), _##alg##_update_sse(), _##alg##_update_avx(), _##alg##_update_avx2(), _##alg##_update_avx512(), \
        _##alg##_finalize_base(), _##alg##_finalize_sse(), _##alg##_finalize_avx(), _##alg##_finalize_avx2(), _##alg##_finalize_avx512(), _##alg##_init(), _##alg##_update(), _##alg##_finalize(), \
        _##alg##_block_base(), _##alg##_block_sse(), _##alg##_block_avx(), _##alg##_block_avx2(), _##alg##_block_avx512();
MHD(mh_sha1) MHD(mh_sha256) MHD(mh_sha1_murmur3_x64_128)
extern int _mh_sha1_tail_base(), _mh_sha1_tail_sse(), _mh_sha1_tail_avx(), _mh_sha1_tail_avx2(), _mh_sha1_tail_avx512(), _mh_sha256_tail_base(), _mh_sha256_tail_sse(), _mh_sha256_tail_avx(), _mh_sha256_tail_avx2(), _mh_sha256_tail_avx512();
static const char *const mh_fams[5] = { "base", "sse", "avx", "avx2", "avx512" };
typedef struct { const char *name; size_t ctx_size, dlen; void *upd[5], *fin[5], *blk[5], *init, *e_upd, *e_fin, *i_init, *i_upd, *i_fin, *l_init, *l_upd, *l_fin; } mha_t;
#define MHA(alg, dl, T) { #alg, sizeof(T), dl, { _##alg##_update_base, _##alg##_update_sse, _##alg##_update_avx, _##alg##_update_avx2, _##alg##_update_avx512 }, \
        { _##alg##_finalize_base, _##alg##_finalize_sse, _##alg##_finalize_avx, _##alg##_finalize_avx2, _##alg##_finalize_avx512 }, \
        { _##alg##_block_base, _##alg##_block_sse, _##alg##_block_avx, _##alg##_block_avx2, _##alg##_block_avx512 }, \
        _##alg##_init, _##alg##_update, _##alg##_finalize, isal_##alg##_init, isal_##alg##_update, isal_##alg##_finalize, alg##_init, alg##_update, alg##_finalize }
static const mha_t mhas[3] = { MHA(mh_sha1, 20, struct isal_mh_sha1_ctx), MHA(mh_sha256, 32, struct isal_mh_sha256_ctx), MHA(mh_sha1_murmur3_x64_128, 20, struct isal_mh_sha1_murmur3_x64_128_ctx) };
static void scen_mh(int fi, int route, rng_t *r)
{
        const mha_t *a = &mhas[rng_below(r, 3)];
        int murmur = a == &mhas[2];
        static const uint32_t lens[] = { 0, 1, 63, 64, 1015, 1016, 1017, 1023, 1024, 1025, 2047, 2048, 2049, 3000, 5000 };
        uint32_t len = lens[rng_below(r, sizeof lens / sizeof lens[0])];
        snprintf(scen, sizeof scen, "%s %s %s len=%u", a->name, mh_fams[fi], route_name[route], len);
        uint8_t *ctx = AL(a->ctx_size, 64, 1), *data = AL(len + 1, 1, 0), *dg = AL(32, 4, 1), *md = AL(16, 8, 1);
        rng_fill(r, data, len);
        extern int mh_sha1_update_base(), mh_sha1_finalize_base(), mh_sha256_update_base(), mh_sha256_finalize_base(), mh_sha1_murmur3_x64_128_update_base(), mh_sha1_murmur3_x64_128_finalize_base();
        static void *const lbase_upd[3] = { mh_sha1_update_base, mh_sha256_update_base, mh_sha1_murmur3_x64_128_update_base };
        static void *const lbase_fin[3] = { mh_sha1_finalize_base, mh_sha256_finalize_base, mh_sha1_murmur3_x64_128_finalize_base };
        int use_lbase = route == R_LEGACY && fi == 0 && rng_below(r, 2);       /* the public *_base entry points */
        void *fin_ = use_lbase ? lbase_fin[a - mhas] : route == R_FAM ? a->fin[fi] : route == R_ISAL ? a->i_fin : route == R_LEGACY ? a->l_fin : a->e_fin;
        void *upd_ = use_lbase ? lbase_upd[a - mhas] : route == R_FAM ? a->upd[fi] : route == R_ISAL ? a->i_upd : route == R_LEGACY ? a->l_upd : a->e_upd;
        void *ini_ = (route == R_FAM || route == R_ENTRY) ? a->init : route == R_ISAL ? a->i_init : a->l_init;
        if (murmur) O64((uint32_t) T(ini_, 0, "init", U(ctx), 0x1234567890abcdefULL)); else O64((uint32_t) T(ini_, 0, "init", U(ctx)));
        uint32_t cut = rng_below(r, len + 1);
        unsigned m32 = (route == R_ISAL || route == R_LEGACY) ? 0x4 : 0;
        O64((uint32_t) T(upd_, m32, "update a", U(ctx), U(data), cut));
        O64((uint32_t) T(upd_, m32, "update b", U(ctx), U(data + cut), len - cut));
        if (murmur) O64((uint32_t) T(fin_, 0, "finalize", U(ctx), U(dg), U(md))); else O64((uint32_t) T(fin_, 0, "finalize", U(ctx), U(dg)));
        O(dg, a->dlen); if (murmur) O(md, 16);
        /* the assembly block functions directly, as the C update code calls them */
        if (route == R_FAM) {
                uint32_t nb = 1 + rng_below(r, 3);
                uint8_t *blk = AL(1024 * nb, 64, 0), *frame = AL(1024 + 64, 64, 1), *dig = AL(4 * 8 * 16, 64, 0);
                rng_fill(r, blk, 1024 * nb); rng_fill(r, dig, 4 * 8 * 16);
                snprintf(scen, sizeof scen, "%s block %s nblocks=%u", a->name, mh_fams[fi], nb);
                if (murmur) { uint8_t *mu = AL(16, 16, 0); rng_fill(r, mu, 16); T(a->blk[fi], 0, "block", U(blk), U(dig), U(frame), U(mu), nb); O(mu, 16); }
                else T(a->blk[fi], 0, "block", U(blk), U(dig), U(frame), nb);
                O(dig, 4 * (a->dlen / 4) * 16);
        }
}

/* ------------------------------------------------------------------ rolling */
extern uint64_t _rolling_hash2_run_until_base(), _rolling_hash2_run_until_00(), _rolling_hash2_run_until_04(), _rolling_hash2_run_until();
extern int _rolling_hash2_init(), _rolling_hash2_run(); extern void _rolling_hash2_reset(); extern uint32_t _rolling_hashx_mask_gen();
static void *const scan_fn[3] = { _rolling_hash2_run_until_base, _rolling_hash2_run_until_00, _rolling_hash2_run_until_04 };
static const char *const scan_name[3] = { "base", "00", "04" };
static void scen_rolling(int si, int route, rng_t *r)
{
        unsigned w = 1 + rng_below(r, 48);
        uint32_t n = rng_below(r, 3) ? rng_below(r, 200) : rng_below(r, 5000);
        snprintf(scen, sizeof scen, "rolling %s %s w=%u n=%u", scan_name[si], route_name[route], w, n);
        struct isal_rh_state2 *st = (void *) AL(sizeof *st, 64, 1);
        /* in some of the hidden-state variants the not yet initialised state is not a byte pattern but "plausible": every word holds the requested window */
        if (mode == M_HIDDEN && (H.vec[1] & 1)) for (size_t i = 0; i + 4 <= sizeof *st; i += 4) memcpy((uint8_t *) st + i, &w, 4);
        uint8_t *init = AL(48, 1, 0), *data = AL(n + 1, 1, 0);
        rng_fill(r, init, 48); rng_fill(r, data, n);
        uint32_t mask = (1u << rng_below(r, 12)) - 1, trig = (uint32_t) rng_u64(r) & mask;
        uint32_t *off = (uint32_t *) AL(4, 4, 1); int *match = (int *) AL(4, 4, 1);
        if (route == R_ISAL) {
                O64((uint32_t) T(isal_rolling_hash2_init, 0x2, "init", U(st), w)); O64((uint32_t) T(isal_rolling_hash2_reset, 0, "reset", U(st), U(init)));
                uint32_t p = 0;
                for (int k = 0; k < 5 && p <= n; k++) { uint32_t mx = k == 4 ? n - p : rng_below(r, n - p + 1); O64((uint32_t) T(isal_rolling_hash2_run, 0x1c, mx < w ? "run short" : "run", U(st), U(data + p), mx, mask, trig, U(off), U(match))); O64(*off); O64((uint64_t) *match); p += *off; }
                uint32_t *m = (uint32_t *) AL(4, 4, 1);
                O64((uint32_t) T(isal_rolling_hashx_mask_gen, 0x3, "mask_gen", 1000 + n, w & 31, U(m))); O64(*m);
        } else if (route == R_LEGACY) {
                O64((uint32_t) T(rolling_hash2_init, 0x2, "init", U(st), w)); T(rolling_hash2_reset, 0, "reset", U(st), U(init));
                uint32_t p = 0;
                for (int k = 0; k < 5 && p <= n; k++) { uint32_t mx = k == 4 ? n - p : rng_below(r, n - p + 1); O64((uint32_t) T(rolling_hash2_run, 0x1c, mx < w ? "run short" : "run", U(st), U(data + p), mx, mask, trig, U(off))); O64(*off); p += *off; }
                O64((uint32_t) T(rolling_hashx_mask_gen, 0x2, "mask_gen", 1000 + n, w & 31));
        } else {
                /* scan kernels directly, with the arguments _rolling_hash2_run gives them */
                rolling_hash2_init(st, w); rolling_hash2_reset(st, init);
                if (n > w) {
                        uint32_t *idx = (uint32_t *) AL(4, 4, 0); *idx = w;
                        uint64_t h = T(route == R_ENTRY ? (void *) _rolling_hash2_run_until : scan_fn[si], 0, (n - w) & 1 ? "scan odd" : "scan even", U(idx), n, U(st->table1), U(st->table2), U(data), U(data - w), st->hash, mask, trig);
                        (void) h; O64(*idx);
                }
        }
        O(&st->hash, 8);
}

/* ------------------------------------------------------------------ misc */
#ifdef VERIF_FIPS
#include <pthread.h>
#include <unistd.h>
extern void asm_set_self_tests_status(int);
static void *publish_later(void *p)
{
        usleep(300);
        asm_set_self_tests_status(*(volatile int *) p);
        return NULL;
}
#endif
static void scen_misc(rng_t *r)
{
        snprintf(scen, sizeof scen, "misc");
        uint32_t nb = 1 + rng_below(r, 5);
        uint8_t *data = AL(128 * nb, 1, 0); uint64_t *dg = (uint64_t *) AL(64, 64, 0);
        rng_fill(r, data, 128 * nb); rng_fill(r, dg, 64);
        T(_sha512_sse4, 0, "sha512_sse4", U(data), U(dg), nb);
        O(dg, 64);
        extern unsigned int isal_crypto_get_version(void); extern const char *isal_crypto_get_version_str(void);
        O64((uint32_t) T(isal_crypto_get_version, 0, "version")); T(isal_crypto_get_version_str, 0, "version_str");
#ifdef VERIF_FIPS
        extern int asm_check_self_tests_status(void); extern void asm_set_self_tests_status(int); extern int isal_self_tests(void);
        T(asm_set_self_tests_status, 0, "set", 2);      /* re-arm: not run */
        O64((uint32_t) T(asm_check_self_tests_status, 0, "check not-run"));
        T(asm_set_self_tests_status, 0, "set", 0);
        O64((uint32_t) T(asm_check_self_tests_status, 0, "check done"));
        O64((uint32_t) T(isal_self_tests, 0, "isal_self_tests done"));
        T(asm_set_self_tests_status, 0, "set", 1);
        O64((uint32_t) T(asm_check_self_tests_status, 0, "check failed"));
        /* the waiting path: the status says RUNNING, another thread publishes the verdict a little later */
        for (int verdict = 0; verdict < 2; verdict++) {
                pthread_t th; static volatile int vd; vd = verdict;
                asm_set_self_tests_status(3);
                pthread_create(&th, NULL, publish_later, (void *) &vd);
                O64((uint32_t) T(asm_check_self_tests_status, 0, "check while running (waits)"));
                pthread_join(th, NULL);
                asm_set_self_tests_status(3);
                pthread_create(&th, NULL, publish_later, (void *) &vd);
                O64((uint32_t) T(isal_self_tests, 0, "isal_self_tests while running (waits)"));
                pthread_join(th, NULL);
        }
        T(asm_set_self_tests_status, 0, "set", 0);
#endif
}

/* ------------------------------------------------------------------ driver */
typedef void (*scen_f)(uint64_t c, rng_t *r);
static const char *g_what, *g_famsel; static int g_route;
static int fam_sel(const char *n) { if (!strcmp(g_famsel, "all")) return 1; char t[200], w[64]; snprintf(t, sizeof t, ",%s,", g_famsel); snprintf(w, sizeof w, ",%s,", n); return strstr(t, w) != NULL; }

static void run_one(uint64_t c, int fi, const char *fam, const char *vcpu, void (*body)(int fi, rng_t *r))
{
        snprintf(rbuf, sizeof rbuf, "{\"engine\":\"trampeng\",\"mode\":%d,\"what\":\"%s\",\"fam\":\"%s\",\"route\":\"%s\",\"seed\":%llu,\"case\":%llu}", mode, g_what, fam, route_name[g_route], (unsigned long long) g_seed, (unsigned long long) c);
        snprintf(cur_replay, sizeof cur_replay, "%s", rbuf);
        uint64_t cs = mix64(g_seed ^ 0x7a3, mix64(c, (uint64_t) fi * 8 + (uint64_t) g_route));
        int nruns = mode == M_HIDDEN ? 3 : 1;
        uint64_t o[3];
        for (int k = 0; k < nruns; k++) {
                rng_t r; rng_seed(&r, cs);
                if (mode == M_HIDDEN) { if (k == 0) H = tramp_hidden_A; else if (k == 1) H = tramp_hidden_B; else { rng_t hr; rng_seed(&hr, cs ^ 0x9e37); tramp_hidden_random(&H, &hr); } }
                else { rng_t hr; rng_seed(&hr, cs ^ 0x51); tramp_hidden_random(&H, &hr); H.upper32 = 0; }
                if (g_route != R_FAM) force_vcpu(vcpu);       /* first calls go through the resolvers, under the trampoline */
                aoff = 0; obs = 0; nneed = 0; rng_seed(&shift_rng, cs ^ 0x5417);
                body(fi, &r);
                o[k] = obs;
        }
        out_count("scenarios", 1);
        if (mode == M_HIDDEN) {
                out_count("paired_scenarios", 1);
                feat(mix64(0x41d, mix64(cs, 0)));
                if (o[0] != o[1] || o[0] != o[2]) {
                        char key[200]; snprintf(key, sizeof key, "hidden-input %s %s %s", g_what, fam, route_name[g_route]);
                        out_viol("C20", key, rbuf, "scenario (%s): observable outputs differ between runs that differ only in hidden state (output prefill, uninitialised object memory, caller-saved registers, vector/mask registers, flags, dead stack%s): %016llx / %016llx / %016llx",
                                 scen, (g_route == R_ISAL || g_route == R_LEGACY) ? ", upper halves of 32-bit arguments" : "", (unsigned long long) o[0], (unsigned long long) o[1], (unsigned long long) o[2]);
                }
        }
}
static const halg_t *cur_alg;
static void b_hash(int fi, rng_t *r) { scen_hash(cur_alg, &cur_alg->fam[fi], g_route, r); }
static void b_job(int fi, rng_t *r) { scen_hashjob(&jobmgrs[fi], r); }
static void b_gcm(int fi, rng_t *r) { scen_gcm(&gcm_fams[fi], g_route, r); }
static void b_xts(int fi, rng_t *r) { scen_xts(&xts_fams[fi], g_route, r); }
static void b_cbc(int fi, rng_t *r) { scen_cbc(fi, g_route, r); }
static void b_mh(int fi, rng_t *r) { scen_mh(fi, g_route, r); }
static void b_roll(int fi, rng_t *r) { scen_rolling(fi, g_route, r); }
static void b_misc(int fi, rng_t *r) { (void) fi; scen_misc(r); }

int main(int argc, char **argv)
{
        out_init(argc, argv);
        if (ref_selfcheck()) out_err("reference oracle self-check failed");
        const char *m = arg_str("--mode", "abi");
        mode = !strcmp(m, "abi") ? M_ABI : !strcmp(m, "secrets") ? M_SECRETS : M_HIDDEN;
        g_what = arg_str("--what", "gcm"); g_famsel = arg_str("--fam", "all");
        const char *routes = arg_str("--route", "fam,isal,legacy,entry");
        arena = aligned_alloc(4096, 8u << 20);
        tramp_init();
        static const char *const cbcv[3] = { "sse", "avx", "avx512_g2" }, *const rollv[3] = { "base", "sse", "avx2" };
        for (g_route = 0; g_route < 4; g_route++) {
                if (!strstr(routes, route_name[g_route])) continue;
                for (uint64_t c = g_from; c < g_from + g_count; c++) {
                        if (!strcmp(g_what, "hash")) {
                                for (int ai = 0; ai < 5; ai++) { cur_alg = &halgs[ai]; if (strcmp(arg_str("--alg", "all"), "all") && strcmp(arg_str("--alg", "all"), cur_alg->name)) continue;
                                        for (int fi = 0; fi < cur_alg->nfam; fi++) if (fam_sel(cur_alg->fam[fi].name)) run_one(c, fi, cur_alg->fam[fi].name, cur_alg->fam[fi].vcpu, b_hash); }
                        } else if (!strcmp(g_what, "hashjob")) { if (g_route == R_FAM) for (int fi = 0; fi < NJOBMGR; fi++) if (fam_sel(jobmgrs[fi].fam)) run_one(c, fi, jobmgrs[fi].fam, "host", b_job); }
                        else if (!strcmp(g_what, "gcm")) { for (int fi = 0; fi < NGCMFAM; fi++) if (fam_sel(gcm_fams[fi].name)) run_one(c, fi, gcm_fams[fi].name, gcm_fams[fi].vcpu, b_gcm); }
                        else if (!strcmp(g_what, "xts")) { for (int fi = 0; fi < NXTSFAM; fi++) if (fam_sel(xts_fams[fi].name)) run_one(c, fi, xts_fams[fi].name, xts_fams[fi].vcpu, b_xts); }
                        else if (!strcmp(g_what, "cbc")) { for (int fi = 0; fi < 3; fi++) if (fam_sel(cbcv[fi])) run_one(c, fi, cbcv[fi], cbcv[fi], b_cbc); }
                        else if (!strcmp(g_what, "mh")) { for (int fi = 0; fi < 5; fi++) if (fam_sel(mh_fams[fi])) run_one(c, fi, mh_fams[fi], mh_fams[fi], b_mh); }
                        else if (!strcmp(g_what, "rolling")) { for (int fi = 0; fi < 3; fi++) if (fam_sel(scan_name[fi])) run_one(c, fi, scan_name[fi], rollv[fi], b_roll); }
                        else if (!strcmp(g_what, "misc")) { if (g_route == R_FAM) run_one(c, 0, "-", "host", b_misc); }
                        else out_err("unknown --what %s", g_what);
                }
        }
        out_sample("{\"engine\":\"trampeng\",\"mode\":\"%s\",\"what\":\"%s\",\"routes\":\"%s\",\"last_scenario\":\"%s\",\"trampoline_calls\":%llu}", m, g_what, routes, scen, (unsigned long long) tramp_calls());
        tramp_emit_called();
        vcpu_set("host");
        out_finish();
        return viol_count() ? 1 : 0;
}
