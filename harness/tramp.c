#include "tramp.h"
#include <sys/mman.h>
#include <dlfcn.h>

/* globals addressed RIP-relative by tramp.S */
void *tramp_fn;
uint64_t tramp_regs[16], tramp_cap[16], tramp_cap_flags, tramp_cap_k[8], tramp_k, tramp_flags, tramp_fill_qword;
uint64_t tramp_host_rsp, tramp_new_rsp, tramp_dead_lo, tramp_dead_len;
uint32_t tramp_host_mxcsr, tramp_mxcsr, tramp_cap_mxcsr;
uint16_t tramp_host_fcw, tramp_fcw, tramp_cap_fcw;
uint8_t tramp_stack_fill;
uint8_t tramp_vec[64] __attribute__((aligned(64)));
uint8_t tramp_cap_zmm[32][64] __attribute__((aligned(64)));
extern void tramp_call(void);

#define DEAD (256u << 10)       /* bytes of private stack below the call */
#define SCAN (64u << 10)
#define NCANARY 32
static uint8_t *stk_map, *stk_top;      /* stk_top: first byte above the usable stack (canary words start here) */
static const uint64_t SENT[6] = { 0x5e17b0b0b0b0b001ULL, 0x5e17b0b0b0b0b002ULL, 0x5e17b0b0b0b0b003ULL, 0x5e17b0b0b0b0b004ULL, 0x5e17b0b0b0b0b005ULL, 0x5e17b0b0b0b0b006ULL };
#define CANARY 0xCA11AB1ECA11AB1EULL
static uint64_t ncalls, entry_rsp;
unsigned tramp_stack_shift;
static int cur_nstack;

const tramp_hidden_t tramp_hidden_A = { 0, { 0 }, 0, 0, 0x00, 0 };
const tramp_hidden_t tramp_hidden_B = { ~0ULL, { 0xff, 0xff, 0xff, 0xff, 0xff, 0xff, 0xff, 0xff, 0xff, 0xff, 0xff, 0xff, 0xff, 0xff, 0xff, 0xff, 0xff, 0xff, 0xff, 0xff, 0xff, 0xff, 0xff, 0xff, 0xff, 0xff, 0xff, 0xff, 0xff, 0xff, 0xff, 0xff,
        0xff, 0xff, 0xff, 0xff, 0xff, 0xff, 0xff, 0xff, 0xff, 0xff, 0xff, 0xff, 0xff, 0xff, 0xff, 0xff, 0xff, 0xff, 0xff, 0xff, 0xff, 0xff, 0xff, 0xff, 0xff, 0xff, 0xff, 0xff, 0xff, 0xff, 0xff, 0xff }, ~0ULL, 0x8d5, 0xff, 0xffffffff00000000ULL };
void tramp_hidden_random(tramp_hidden_t *h, rng_t *r)
{
        h->gpr = rng_u64(r); rng_fill(r, h->vec, 64); h->k = rng_u64(r); h->flags = rng_u64(r) & 0x8d5; h->stack = (uint8_t) rng_u64(r);
        h->upper32 = rng_u64(r) << 32;
}

void tramp_init(void)
{
        size_t len = DEAD + 8192 + 2 * 4096;
        stk_map = mmap(NULL, len, PROT_NONE, MAP_PRIVATE | MAP_ANONYMOUS, -1, 0);
        if (stk_map == MAP_FAILED) out_err("tramp: mmap failed");
        mprotect(stk_map + 4096, DEAD + 8192, PROT_READ | PROT_WRITE);
        stk_top = stk_map + 4096 + DEAD + 4096;         /* 4 KiB above for stack args + canaries */
}

#define MAXF 4096
static void *called[MAXF]; static int ncalled;
static void note_called(void *fn)
{
        for (int i = 0; i < ncalled; i++) if (called[i] == fn) return;
        if (ncalled < MAXF) called[ncalled++] = fn;
}
void tramp_emit_called(void)
{
        printf("{\"t\":\"called\",\"names\":[");
        int first = 1;
        for (int i = 0; i < ncalled; i++) {
                const char *n = sym_name(called[i]);
                if (n[0] != '?') { printf("%s\"%s\"", first ? "" : ",", n); first = 0; }
        }
        printf("]}\n");
}
uint64_t tramp_calls(void) { return ncalls; }

uint64_t tramp_invoke(void *fn, int nargs, const uint64_t *args, unsigned is32, const tramp_hidden_t *h)
{
        static const int regidx[6] = { 5, 4, 3, 2, 8, 9 };       /* rdi rsi rdx rcx r8 r9 in tramp_regs order */
        if (!stk_map) tramp_init();
        note_called(fn);
        int nstack = nargs > 6 ? nargs - 6 : 0;
        cur_nstack = nstack;
        uint64_t *top = (uint64_t *) stk_top;
        for (int i = 0; i < NCANARY; i++) top[i] = CANARY;
        /* stack args end below the canaries; rsp at the call must be 16-byte aligned. tramp_stack_shift (0..7) moves the whole
         * frame down by 16-byte steps so that every residue of rsp modulo 64/128 is exercised; the gap is canary-filled */
        uint64_t *sa = top - nstack;
        if (((uintptr_t) sa) & 15) sa--;
        sa -= 2 * (tramp_stack_shift & 7);
        for (int i = 0; i < nstack; i++) sa[i] = args[6 + i] | ((is32 >> (6 + i)) & 1 ? h->upper32 : 0);
        for (uint64_t *q = sa + nstack; q < top; q++) *q = CANARY;
        tramp_new_rsp = (uint64_t) sa;
        entry_rsp = tramp_new_rsp;
        tramp_dead_lo = (uint64_t) (stk_map + 4096);
        tramp_dead_len = tramp_new_rsp - tramp_dead_lo;
        tramp_stack_fill = h->stack;
        memset(&tramp_fill_qword, h->stack, 8);
        for (int i = 0; i < 16; i++) tramp_regs[i] = h->gpr;
        tramp_regs[1] = SENT[0]; tramp_regs[6] = SENT[1]; tramp_regs[12] = SENT[2]; tramp_regs[13] = SENT[3]; tramp_regs[14] = SENT[4]; tramp_regs[15] = SENT[5];
        for (int i = 0; i < nargs && i < 6; i++) tramp_regs[regidx[i]] = args[i] | ((is32 >> i) & 1 ? h->upper32 : 0);
        memcpy(tramp_vec, h->vec, 64);
        tramp_k = h->k;
        tramp_flags = 0x202 | (h->flags & 0x8d5);
        tramp_mxcsr = 0x1f80 | 0x2000;          /* round toward -inf: a callee that resets MXCSR to the default is noticed */
        tramp_fcw = 0x037f & ~0x0300;           /* single precision control: differs from the default 0x037f */
        tramp_fcw |= 0x0400;                    /* rounding control */
        tramp_fn = fn;
        ncalls++;
        tramp_call();
        return tramp_cap[0];
}

int tramp_abi_ok(char *why, size_t n)
{
        static const char *const nm[6] = { "rbx", "rbp", "r12", "r13", "r14", "r15" };
        static const int idx[6] = { 1, 6, 12, 13, 14, 15 };
        size_t o = 0; int bad = 0;
        why[0] = 0;
        if (tramp_cap[7] != entry_rsp) { bad = 1; o += (size_t) snprintf(why + o, n - o, "rsp=%+lld ", (long long) (tramp_cap[7] - entry_rsp)); }
        for (int i = 0; i < 6; i++) if (tramp_cap[idx[i]] != SENT[i] && o < n) { bad = 1; o += (size_t) snprintf(why + o, n - o, "%s ", nm[i]); }
        if ((tramp_cap_flags & 0x400) && o < n) { bad = 1; o += (size_t) snprintf(why + o, n - o, "DF=1 "); }
        if (((tramp_cap_mxcsr ^ tramp_mxcsr) & 0xffc0) && o < n) { bad = 1; o += (size_t) snprintf(why + o, n - o, "mxcsr=%04x(was %04x) ", tramp_cap_mxcsr, tramp_mxcsr); }
        if (tramp_cap_fcw != tramp_fcw && o < n) { bad = 1; o += (size_t) snprintf(why + o, n - o, "x87cw=%04x(was %04x) ", tramp_cap_fcw, tramp_fcw); }
        uint64_t *top = (uint64_t *) stk_top;
        for (int i = 0; i < NCANARY; i++) if (top[i] != CANARY && o < n) { bad = 1; o += (size_t) snprintf(why + o, n - o, "write-above-frame@+%d ", 8 * (i + cur_nstack)); break; }
        uint64_t *sa = (uint64_t *) entry_rsp;
        for (uint64_t *q = sa + cur_nstack; q < top; q++) if (*q != CANARY && o < n) { bad = 1; o += (size_t) snprintf(why + o, n - o, "write-above-frame(gap) "); break; }
        return !bad;
}

int tramp_scan(const needle_t *nd, int n, char *where, size_t wn)
{
        /* vector registers: every 16-byte lane */
        for (int r = 0; r < 32; r++)
                for (int l = 0; l < 4; l++)
                        for (int k = 0; k < n; k++)
                                if (!memcmp(tramp_cap_zmm[r] + 16 * l, nd[k].blk, 16)) { snprintf(where, wn, "zmm%d[%d:%d]", r, 128 * l + 127, 128 * l); return k; }
        /* dead stack: any byte offset in the 64 KiB below the caller's stack pointer */
        uint64_t first[256]; int nf = n < 256 ? n : 256;
        for (int k = 0; k < nf; k++) memcpy(&first[k], nd[k].blk, 8);
        uint64_t fillq; memset(&fillq, tramp_stack_fill, 8);
        const uint8_t *lo = (const uint8_t *) entry_rsp - SCAN, *hi = (const uint8_t *) entry_rsp;
        for (const uint8_t *p = lo; p + 16 <= hi; p++) {
                uint64_t v; memcpy(&v, p, 8);
                if (v == fillq) { if ((((uintptr_t) p) & 7) == 0) { /* fast skip over untouched fill */ while (p + 24 <= hi) { uint64_t w; memcpy(&w, p + 8, 8); if (w != fillq) break; p += 8; } } continue; }
                for (int k = 0; k < nf; k++)
                        if (v == first[k] && !memcmp(p, nd[k].blk, 16)) { snprintf(where, wn, "stack[rsp-%ld]", (long) (hi - p)); return k; }
        }
        return -1;
}
