/* threads - C18: no hidden shared state.
 *   mixed : N threads each run a seeded operation sequence on their own objects (all algorithms);
 *           the per-thread result hash must equal the one obtained when the same sequence runs alone.
 *   storm : simultaneous first calls of each dispatched entry (slot re-armed each round) from a spinning
 *           barrier; every call must produce the single-threaded result and the slot must end on the
 *           target a single-threaded resolution yields.
 *   The library's writable static storage is compared with its load-time image after every phase. */
#include "entrycall.h"
#include <pthread.h>
#include <sched.h>
#include <isal_crypto_api.h>
#include <multi_buffer.h>
#include <aes_gcm.h>
#include <aes_cbc.h>
#include <aes_xts.h>
#include <mh_sha1.h>
#include <mh_sha256.h>
#include <mh_sha1_murmur3_x64_128.h>
#include <rolling_hashx.h>

typedef struct { volatile int count, gen; int parties; } sbar_t;
static void sbar_wait(sbar_t *b)
{
        int g = __atomic_load_n(&b->gen, __ATOMIC_SEQ_CST);
        if (__atomic_add_fetch(&b->count, 1, __ATOMIC_SEQ_CST) == b->parties) { __atomic_store_n(&b->count, 0, __ATOMIC_SEQ_CST); __atomic_add_fetch(&b->gen, 1, __ATOMIC_SEQ_CST); return; }
        for (unsigned spins = 0; __atomic_load_n(&b->gen, __ATOMIC_SEQ_CST) == g; spins++) { if ((spins & 255) == 255) sched_yield(); else __asm__ volatile("pause"); }
}

/* ------------------------------------------------------------------ mixed operations on private objects */
static uint64_t one_op(priv_t *p, rng_t *r)
{
        uint64_t h = 0;
        uint32_t len = rng_below(r, 3) ? rng_below(r, 300) : rng_below(r, 4000);
        rng_fill(r, p->in, len); rng_fill(r, p->key, 64); rng_fill(r, p->iv, 16); rng_fill(r, p->aad, 64);
        switch (rng_below(r, 10)) {
        case 0: case 1: {       /* GCM one-shot + stream */
                int ks = (int) rng_below(r, 2), nt = rng_below(r, 4) == 0; uint32_t aadl = rng_below(r, 64);
                h = mix64(h, (uint64_t) gcm_isal.pre[ks](p->key, p->kd));
                h = mix64(h, (uint64_t) gcm_isal.one[ks][0][nt](p->kd, &p->gctx, p->out, p->in, len, p->iv, p->aad, aadl, p->tag, 16)); ACC(p->out, len); ACC(p->tag, 16);
                h = mix64(h, (uint64_t) gcm_isal.one[ks][1][nt](p->kd, &p->gctx, p->out2, p->out, len, p->iv, p->aad, aadl, p->tag, 12)); ACC(p->out2, len); ACC(p->tag, 12);
                uint32_t cut = rng_below(r, len + 1);
                gcm_isal.init[ks](p->kd, &p->gctx, p->iv, p->aad, aadl); gcm_isal.upd[ks][0][0](p->kd, &p->gctx, p->out, p->in, cut); gcm_isal.upd[ks][0][0](p->kd, &p->gctx, p->out + cut, p->in + cut, len - cut);
                gcm_isal.fin[ks][0](p->kd, &p->gctx, p->tag, 16); ACC(p->out, len); ACC(p->tag, 16);
                break; }
        case 2: {               /* XTS */
                int ks = (int) rng_below(r, 2), xp = (int) rng_below(r, 2); uint32_t l = 16 + (len % 2000);
                ref_aes_t a1, a2; const uint8_t *k1 = p->key, *k2 = p->key + 32;
                if (xp) { ref_aes_expand(&a1, p->key, ks_bits2[ks]); ref_aes_expand(&a2, p->key + 32, ks_bits2[ks]); k1 = (uint8_t *) a1.enc; k2 = (uint8_t *) a2.enc; }
                h = mix64(h, (uint64_t) xts_isal[ks][0][xp](k2, k1, p->iv, l, p->in, p->out)); ACC(p->out, l);
                if (!xp) { h = mix64(h, (uint64_t) xts_isal[ks][1][0](k2, k1, p->iv, l, p->out, p->out2)); ACC(p->out2, l); }
                break; }
        case 3: {               /* key expansion + CBC */
                int ks = (int) rng_below(r, 3); uint32_t l = 16 * (1 + len % 100);
                h = mix64(h, (uint64_t) keyexp_isal[ks](p->key, p->e, p->d)); ACC(p->e, 176); ACC(p->d, 176);
                h = mix64(h, (uint64_t) cbc_enc_isal[ks](p->in, p->iv, p->e, p->out, l)); ACC(p->out, l);
                h = mix64(h, (uint64_t) cbc_dec_isal[ks](p->out, p->iv, p->d, p->out2, l)); ACC(p->out2, l);
                break; }
        case 4: { uint32_t dg[8] = { 0 }; isal_mh_sha1_init(&p->mh1); isal_mh_sha1_update(&p->mh1, p->in, len / 2); isal_mh_sha1_update(&p->mh1, p->in + len / 2, len - len / 2); isal_mh_sha1_finalize(&p->mh1, dg); ACC(dg, 20); break; }
        case 5: { uint32_t dg[8] = { 0 }; isal_mh_sha256_init(&p->mh2); isal_mh_sha256_update(&p->mh2, p->in, len); isal_mh_sha256_finalize(&p->mh2, dg); ACC(dg, 32); break; }
        case 6: { uint32_t dg[8] = { 0 }; uint8_t mu[16] = { 0 }; isal_mh_sha1_murmur3_x64_128_init(&p->mh3, len); isal_mh_sha1_murmur3_x64_128_update(&p->mh3, p->in, len); isal_mh_sha1_murmur3_x64_128_finalize(&p->mh3, dg, mu); ACC(dg, 20); ACC(mu, 16); break; }
        case 7: {               /* rolling */
                uint32_t w = 1 + rng_below(r, 48), off = 0; int match = 0;
                isal_rolling_hash2_init(&p->rh, w); isal_rolling_hash2_reset(&p->rh, p->key);
                uint32_t pos = 0;
                for (int k = 0; k < 4 && pos < len; k++) { isal_rolling_hash2_run(&p->rh, p->in + pos, len - pos, 0x3f, 0x11, &off, &match); h = mix64(h, (uint64_t) off << 8 | (uint32_t) match); pos += off; }
                ACC(&p->rh.hash, 8);
                break; }
        default: {              /* one of the five hash managers: three jobs through the isal_ API */
                int ai = (int) rng_below(r, 5); const halg_t *a = &halgs[ai];
                void *out;
                a->i_init(p->hmgr[ai]);
                for (int k = 0; k < 4; k++) {
                        a->ctx_init(p->hctx[ai][k]);
                        uint32_t l = k == 3 ? len : rng_below(r, len + 1);
                        a->i_submit(p->hmgr[ai], p->hctx[ai][k], &out, p->in, l, ISAL_HASH_ENTIRE);
                }
                while (a->i_flush(p->hmgr[ai], &out) == 0 && out) ;
                for (int k = 0; k < 4; k++) ACC(p->hctx[ai][k] + a->off_digest, a->dbytes);
                break; }
        }
        return h;
}
struct marg { int id; uint64_t nops; uint64_t *res; sbar_t *bar; };
static void *mixed_thread(void *av)
{
        struct marg *a = av;
        priv_t *p = priv_new();
        rng_t r; rng_seed(&r, mix64(g_seed ^ 0x18, mix64(g_from, (uint64_t) a->id)));
        if (a->bar) sbar_wait(a->bar);
        for (uint64_t i = 0; i < a->nops; i++) a->res[i] = one_op(p, &r);
        return NULL;
}
static void mode_mixed(void)
{
        int nthr = (int) arg_int("--threads", 8);
        uint64_t nops = g_count;
        /* the families other than the one this host would pick run the same workload when the virtual CPU says so */
        { const char *vc = arg_str("--vcpu", "host"); if (strcmp(vc, "host")) force_vcpu(vc); }
        uint64_t **alone = calloc((size_t) nthr, sizeof *alone), **conc = calloc((size_t) nthr, sizeof *conc);
        struct marg *A = calloc((size_t) nthr, sizeof *A);
        for (int t = 0; t < nthr; t++) { alone[t] = calloc(nops, 8); conc[t] = calloc(nops, 8); A[t] = (struct marg) { t, nops, alone[t], NULL }; mixed_thread(&A[t]); }
        static_watch_check("C18", "after the sequential reference runs");
        sbar_t bar = { 0, 0, nthr };
        pthread_t *th = calloc((size_t) nthr, sizeof *th);
        for (int t = 0; t < nthr; t++) { A[t].res = conc[t]; A[t].bar = &bar; pthread_create(&th[t], NULL, mixed_thread, &A[t]); }
        for (int t = 0; t < nthr; t++) pthread_join(th[t], NULL);
        static_watch_check("C18", "after the concurrent runs");
        for (int t = 0; t < nthr; t++) for (uint64_t i = 0; i < nops; i++) {
                out_count("concurrent_ops_compared", 1);
                if (alone[t][i] != conc[t][i]) {
                        char rb[200]; snprintf(rb, sizeof rb, "{\"engine\":\"threads\",\"mode\":\"mixed\",\"seed\":%llu,\"from\":%llu,\"thread\":%d,\"op\":%llu}", (unsigned long long) g_seed, (unsigned long long) g_from, t, (unsigned long long) i);
                        out_viol("C18", "thread-interference mixed", rb, "operation %llu of thread %d gave a different result when %d threads ran concurrently on private objects", (unsigned long long) i, t, nthr);
                        break;
                }
                feat(alone[t][i]);
        }
        clog_on = 1;
        clog_title("mixed workload: %d threads each run %llu library operations (hash managers, GCM, XTS, CBC, multi-hash, rolling hash, key expansion; seeded) on private objects, first alone then all together; result hashes compared per operation; static storage compared with its load-time image", nthr, (unsigned long long) nops);
        for (int t = 0; t < nthr && t < 8; t++) for (uint64_t i = 0; i < nops && i < 5; i++) clog_event("thread %d op %llu: result hash alone %016llx, concurrent %016llx", t, (unsigned long long) i, (unsigned long long) alone[t][i], (unsigned long long) conc[t][i]);
        clog_on = 0;
        out_max("threads", (uint64_t) nthr);
}

struct sarg { int id; const sentry_t *s; uint64_t seed; uint64_t res; sbar_t *go, *done; volatile int *stop; priv_t *p; };
static void *storm_thread(void *av)
{
        struct sarg *a = av;
        for (;;) {
                sbar_wait(a->go);
                if (*a->stop) return NULL;
                a->res = call_entry(a->s, a->p, a->seed);
                sbar_wait(a->done);
        }
}
static void mode_storm(void)
{
        build_entries();
        int nthr = (int) arg_int("--threads", 8);
        const char *vc = arg_str("--vcpu", "host");
        if (vcpu_set(vc)) out_err("unknown vcpu %s", vc);
        priv_t *p0 = priv_new();
        sbar_t go = { 0, 0, nthr + 1 }, done = { 0, 0, nthr + 1 };
        volatile int stop = 0;
        struct sarg *A = calloc((size_t) nthr, sizeof *A); pthread_t *th = calloc((size_t) nthr, sizeof *th);
        for (int t = 0; t < nthr; t++) { A[t] = (struct sarg) { t, NULL, 0, 0, &go, &done, &stop, priv_new() }; pthread_create(&th[t], NULL, storm_thread, &A[t]); }
        for (int ei = 0; ei < nS; ei++) {
                if ((uint64_t) ei % (uint64_t) arg_int("--nparts", 1) != (uint64_t) arg_int("--part", 0)) continue;
                const sentry_t *s = &S[ei];
                /* single-threaded resolution: reference target and reference results */
                disp_rearm_all();
                uint64_t refres[8];
                for (int k = 0; k < 8; k++) refres[k] = call_entry(s, p0, mix64(g_seed, (uint64_t) k));
                void *target = disp_target_of(s->entry);
                char rb[200];
                for (uint64_t round = 0; round < g_count; round++) {
                        disp_rearm_all();
                        for (int t = 0; t < nthr; t++) { A[t].s = s; A[t].seed = mix64(g_seed, (round + (uint64_t) t) & 7); }
                        snprintf(rb, sizeof rb, "{\"engine\":\"threads\",\"mode\":\"storm\",\"entry\":\"%s\",\"round\":%llu}", sym_name(s->entry), (unsigned long long) round);
                        sbar_wait(&go); sbar_wait(&done);
                        out_count("storm_rounds", 1); out_count("storm_calls", (uint64_t) nthr);
                        for (int t = 0; t < nthr; t++) if (A[t].res != refres[(round + (uint64_t) t) & 7]) {
                                char key[160]; snprintf(key, sizeof key, "first-call-race result %s", sym_name(s->entry));
                                out_viol("C18", key, rb, "%s (%s): a call racing with %d other first calls produced a result different from the single-threaded one", sym_name(s->entry), s->name, nthr - 1);
                                break;
                        }
                        if (disp_target_of(s->entry) != target) {
                                char key[160]; snprintf(key, sizeof key, "first-call-race binding %s", sym_name(s->entry));
                                out_viol("C18", key, rb, "%s: after racing first calls the entry is bound to %s, single-threaded resolution binds %s", sym_name(s->entry), sym_name(disp_target_of(s->entry)), sym_name(target));
                        }
                }
                clog_on = 1;
                clog_title("first-call storms: the entry's dispatch slot is re-armed, then %d threads released from a spinning barrier call it at once; every result is compared with the single-threaded result and the final binding with the single-threaded binding", nthr);
                clog_event("%s under virtual CPU %s: %llu rounds x %d racing first calls, final binding %s, all results equal to the single-threaded ones: %s", sym_name(s->entry), vc, (unsigned long long) g_count, nthr, sym_name(disp_target_of(s->entry)), viol_count() ? "NO" : "yes");
                clog_on = 0;
                feat(mix64(0x5702, (uint64_t) ei)); feat(mix64(0x5703, (uint64_t) (uintptr_t) target));
                out_count("storm_entries", 1);
        }
        stop = 1; sbar_wait(&go);
        for (int t = 0; t < nthr; t++) pthread_join(th[t], NULL);
        static_watch_check("C18", "after the first-call storms");
        out_max("threads", (uint64_t) nthr);
}

int main(int argc, char **argv)
{
        out_init(argc, argv);
        if (ref_selfcheck()) out_err("reference oracle self-check failed");
        int nsec = static_watch_init();
        if (!nsec) out_err("static-storage watch: no writable library sections found (section list missing?)");
        out_max("watched_sections", (uint64_t) nsec);
        const char *m = arg_str("--mode", "mixed");
        if (!strcmp(m, "mixed")) mode_mixed(); else if (!strcmp(m, "storm")) mode_storm(); else out_err("unknown mode");
        char inv[3000]; static_watch_inventory(inv, sizeof inv);
        out_sample("{\"engine\":\"threads\",\"mode\":\"%s\",\"watched_writable_sections\":\"%s\"}", m, inv);
        out_finish();
        return viol_count() ? 1 : 0;
}
