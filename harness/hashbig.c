/* hashmb --mode big : C15, length accounting across the 2^29 / 2^32 / 2^32+2^29 byte totals.
 * All jobs hash the same periodic stream (a 64 MiB memfd mapped back to back, so one submit
 * can cover up to 2^32-1 bytes with 64 MiB of RAM) with different segmentations; the oracle
 * is one OpenSSL streaming pass with snapshots at the totals that are needed. */
#include "hashalgs.h"
#include <sys/mman.h>
#include <unistd.h>
#include <openssl/evp.h>
#include <multi_buffer.h>

#define PERIOD (64ull << 20)
#define NCOPY 74
static uint8_t *stream;         /* NCOPY * PERIOD bytes, periodic */

static void map_stream(void)
{
        int fd = memfd_create("verif-stream", 0);
        if (fd < 0 || ftruncate(fd, (off_t) PERIOD)) out_err("memfd_create/ftruncate failed");
        uint8_t *base = mmap(NULL, NCOPY * PERIOD, PROT_NONE, MAP_PRIVATE | MAP_ANONYMOUS | MAP_NORESERVE, -1, 0);
        if (base == MAP_FAILED) out_err("cannot reserve %llu bytes of address space", (unsigned long long) (NCOPY * PERIOD));
        for (int i = 0; i < NCOPY; i++)
                if (mmap(base + (size_t) i * PERIOD, PERIOD, i == 0 ? PROT_READ | PROT_WRITE : PROT_READ, MAP_SHARED | MAP_FIXED, fd, 0) == MAP_FAILED) out_err("mirror mmap failed");
        rng_t r; rng_seed(&r, g_seed ^ 0xb16b16);
        rng_fill(&r, base, PERIOD);
        mprotect(base, PERIOD, PROT_READ);
        stream = base;
}

typedef struct { uint64_t total; uint8_t digest[64]; } want_t;
static want_t wants[512]; static int nwants;
static int want_idx(uint64_t total)
{
        for (int i = 0; i < nwants; i++) if (wants[i].total == total) return i;
        if (nwants == 512) out_err("too many totals");
        wants[nwants].total = total;
        return nwants++;
}
static int cmp_u64(const void *a, const void *b) { uint64_t x = ((const want_t *) a)->total, y = ((const want_t *) b)->total; return x < y ? -1 : x > y; }
static void oracle(int ref_alg)
{
        const EVP_MD *md = ref_alg == REF_SHA1 ? EVP_sha1() : ref_alg == REF_SHA256 ? EVP_sha256() : ref_alg == REF_SHA512 ? EVP_sha512() : ref_alg == REF_MD5 ? EVP_md5() : EVP_sm3();
        qsort(wants, (size_t) nwants, sizeof wants[0], cmp_u64);
        EVP_MD_CTX *c = EVP_MD_CTX_new(), *snap = EVP_MD_CTX_new();
        if (!EVP_DigestInit_ex(c, md, NULL)) out_err("OpenSSL digest init failed");
        uint64_t pos = 0;
        for (int i = 0; i < nwants; i++) {
                while (pos < wants[i].total) {
                        uint64_t k = wants[i].total - pos; if (k > (1ull << 30)) k = 1ull << 30;
                        EVP_DigestUpdate(c, stream + pos, (size_t) k); pos += k;
                }
                unsigned l;
                EVP_MD_CTX_copy_ex(snap, c);
                EVP_DigestFinal_ex(snap, wants[i].digest, &l);
        }
        EVP_MD_CTX_free(c); EVP_MD_CTX_free(snap);
        /* cross-validate the oracle with the reference on a prefix */
        uint8_t a[64], b[64];
        ref_hash(ref_alg, stream, 300000, a);
        unsigned l; EVP_Digest(stream, 300000, b, &l, md, NULL);
        if (memcmp(a, b, (size_t) ref_alg_dlen[ref_alg])) out_err("reference and OpenSSL disagree on a prefix of the stream");
}

#define MAXSEG 24
typedef struct { uint32_t seg[MAXSEG]; int nseg, next; uint64_t total, accepted; uint8_t *ctx; int inflight, done; int want; } job_t;

/* segmentation of a stream of `total` bytes whose running total crosses `thr` at a chosen residue */
static void plan(job_t *j, rng_t *r, uint64_t thr, int jidx, int block)
{
        static const int64_t dthr[] = { 0, -1, 1, -64, 64, -63, 63, 7 };
        static const uint32_t huge[] = { 0xffffffffu, 0xffffffc0u, 0x80000000u, 0xfffffff7u };
        uint64_t resid = (uint64_t) rng_below(r, 3 * (uint32_t) block + 1);
        if (jidx % 5 == 0) resid = 0;
        uint64_t total = thr + resid + (jidx % 3 == 0 ? 0 : rng_below(r, 1u << 20));
        uint64_t cuts[MAXSEG]; int nc = 0;
        cuts[nc++] = (uint64_t) ((int64_t) thr + dthr[jidx % 8]);             /* a segment boundary at / next to the threshold */
        if (thr > (1ull << 31) && jidx % 2 == 0) {
                /* one single submit of nearly 2^32 bytes somewhere before the end */
                uint32_t h = huge[(jidx / 2) % 4];
                uint64_t start = rng_below(r, 1u << 16);
                if (start + h < total) { cuts[nc++] = start; cuts[nc++] = start + h; }
        }
        int extra = (int) rng_below(r, 4);
        for (int i = 0; i < extra; i++) cuts[nc++] = ((uint64_t) rng_u64(r)) % (total + 1);
        if (jidx % 4 == 1) cuts[nc++] = cuts[0];        /* zero-length UPDATE exactly at the boundary */
        /* sort, clamp, build segments each < 2^32 */
        for (int a = 0; a < nc; a++) for (int b = a + 1; b < nc; b++) if (cuts[b] < cuts[a]) { uint64_t t = cuts[a]; cuts[a] = cuts[b]; cuts[b] = t; }
        uint64_t pos = 0; j->nseg = 0;
        for (int a = 0; a <= nc; a++) {
                uint64_t end = a == nc ? total : cuts[a];
                if (end > total) end = total;
                if (end < pos) continue;
                while (end - pos > 0xffffffffull) { if (j->nseg < MAXSEG - 2) j->seg[j->nseg++] = 0xffffffffu; pos += 0xffffffffull; }
                if (j->nseg < MAXSEG - 1 || a == nc) j->seg[j->nseg++] = (uint32_t) (end - pos), pos = end;
        }
        if (pos != total) { j->seg[j->nseg - 1] += (uint32_t) (total - pos); }
        j->total = total; j->next = 0; j->accepted = 0; j->inflight = 0; j->done = 0;
}

int hashmb_big(int argc, char **argv)
{
        (void) argc; (void) argv;
        const halg_t *a = halg_by_name(arg_str("--alg", "sha256"));
        if (!a) out_err("--alg required");
        const char *fams = arg_str("--fam", "all");
        int rounds = (int) arg_int("--rounds", 1);
        uint64_t thr[3]; int nthr = 0;
        const char *ts = arg_str("--thr", "29");
        if (strstr(ts, "29")) thr[nthr++] = 1ull << 29;
        if (strstr(ts, "32")) thr[nthr++] = 1ull << 32;
        if (strstr(ts, "33")) thr[nthr++] = (1ull << 32) + (1ull << 29);
        map_stream();
        /* plans first (they decide which totals the oracle must produce) */
        static job_t jobs[8][3][4][40];          /* [fam][thr][round][job] */
        int njobs[8];
        for (int fi = 0; fi < a->nfam; fi++) {
                const hfam_t *f = &a->fam[fi];
                int sync = !strcmp(f->name, "base") || !strcmp(f->name, "sb_sse4");
                njobs[fi] = sync ? 3 : f->lanes + 1;
                if (njobs[fi] > 36) njobs[fi] = 36;
                if (strcmp(fams, "all")) { char t[128], w[32]; snprintf(t, sizeof t, ",%s,", fams); snprintf(w, sizeof w, ",%s,", f->name); if (!strstr(t, w)) { njobs[fi] = 0; continue; } }
                for (int ti = 0; ti < nthr; ti++) for (int rd = 0; rd < rounds; rd++) for (int k = 0; k < njobs[fi]; k++) {
                        rng_t r; rng_seed(&r, mix64(g_seed ^ 0xb16, (uint64_t) (((fi * 4 + ti) * 8 + rd) * 64 + k)));
                        plan(&jobs[fi][ti][rd][k], &r, thr[ti], k + rd * 7, a->block);
                        want_idx(jobs[fi][ti][rd][k].total);
                }
        }
        for (int fi = 0; fi < a->nfam; fi++) for (int ti = 0; ti < nthr; ti++) for (int rd = 0; rd < rounds; rd++) for (int k = 0; k < njobs[fi]; k++)
                jobs[fi][ti][rd][k].want = -1;
        oracle(a->ref_alg);
        for (int fi = 0; fi < a->nfam; fi++) for (int ti = 0; ti < nthr; ti++) for (int rd = 0; rd < rounds; rd++) for (int k = 0; k < njobs[fi]; k++)
                for (int w = 0; w < nwants; w++) if (wants[w].total == jobs[fi][ti][rd][k].total) jobs[fi][ti][rd][k].want = w;
        char rb[300];
        for (int fi = 0; fi < a->nfam; fi++) {
                const hfam_t *f = &a->fam[fi];
                for (int ti = 0; ti < nthr && njobs[fi]; ti++) for (int rd = 0; rd < rounds; rd++) {
                        job_t *J = jobs[fi][ti][rd]; int n = njobs[fi];
                        snprintf(rb, sizeof rb, "{\"engine\":\"hashmb\",\"mode\":\"big\",\"alg\":\"%s\",\"fam\":\"%s\",\"thr\":%llu,\"round\":%d,\"seed\":%llu}", a->name, f->name, (unsigned long long) thr[ti], rd, (unsigned long long) g_seed);
                        snprintf(cur_replay, sizeof cur_replay, "%s", rb);
                        uint8_t *mgr = aligned_alloc(64, (a->mgr_size + 63) & ~(size_t) 63);
                        f->init(mgr);
                        for (int k = 0; k < n; k++) { J[k].ctx = aligned_alloc(64, (a->ctx_size + 63) & ~(size_t) 63); memset(J[k].ctx, 0x5a, a->ctx_size); a->ctx_init(J[k].ctx); }
                        int remaining = n, bad = 0;
                        while (remaining > 0 && !bad) {
                                int progressed = 0;
                                for (int k = 0; k <= n && !bad; k++) {
                                        uint8_t *ret;
                                        if (k < n) {
                                                job_t *j = &J[k];
                                                if (j->inflight || j->done) continue;
                                                int flags = (j->next == 0 ? ISAL_HASH_FIRST : 0) | (j->next == j->nseg - 1 ? ISAL_HASH_LAST : 0);
                                                uint32_t len = j->seg[j->next];
                                                LABEL("%s %s big submit total=%llu+%u flags=%d", a->name, f->name, (unsigned long long) j->accepted, len, flags);
                                                ret = f->submit(mgr, j->ctx, stream + j->accepted, len, flags);
                                                cur_label[0] = 0;
                                                j->accepted += len; j->next++; j->inflight = 1; progressed = 1;
                                                out_count("big_submits", 1); out_count("big_bytes", len);
                                                if (len >= 0x80000000u) out_count("big_single_submits_ge_2^31", 1);
                                                if (len == 0) out_count("big_zero_length_updates", 1);
                                                feat(mix64(0xb16, mix64((uint64_t) fi * 8 + (uint64_t) ti, mix64(j->accepted % (2 * (uint64_t) a->block), (uint64_t) flags * 4 + (j->accepted >= thr[ti])))));
                                        } else {
                                                if (progressed) continue;
                                                LABEL("%s %s big flush", a->name, f->name);
                                                ret = f->flush(mgr);
                                                cur_label[0] = 0;
                                                if (!ret) { out_viol("C15", "big-stranded", rb, "%s %s: flush returned nothing while %d job(s) are unfinished", a->name, f->name, remaining); bad = 1; break; }
                                        }
                                        while (ret) {
                                                int ri = -1;
                                                for (int q = 0; q < n; q++) if (J[q].ctx == ret) ri = q;
                                                if (ri < 0 || !J[ri].inflight) { out_viol("C15", "big-phantom", rb, "%s %s: unexpected context handed back", a->name, f->name); bad = 1; break; }
                                                job_t *j = &J[ri];
                                                j->inflight = 0;
                                                uint64_t tl = *(uint64_t *) (j->ctx + a->off_total);
                                                char key[160];
                                                if (tl != j->accepted) {
                                                        snprintf(key, sizeof key, "total-length %s %s", a->name, f->name);
                                                        out_viol("C15", key, rb, "context reports total_length %llu after segments summing to %llu (threshold 2^%s)", (unsigned long long) tl, (unsigned long long) j->accepted, thr[ti] == (1ull << 29) ? "29" : thr[ti] == (1ull << 32) ? "32" : "32+2^29");
                                                }
                                                out_count("big_handbacks", 1);
                                                if (j->next == j->nseg) {
                                                        j->done = 1; remaining--;
                                                        uint8_t got[64] = { 0 };
                                                        halg_digest_bytes(a, j->ctx, got);
                                                        if (*(int32_t *) (j->ctx + a->off_status) != ISAL_HASH_CTX_STS_COMPLETE) { snprintf(key, sizeof key, "big-not-complete %s %s", a->name, f->name); out_viol("C15", key, rb, "job not complete after LAST"); }
                                                        if (j->want < 0 || memcmp(got, wants[j->want].digest, (size_t) a->dbytes)) {
                                                                char g[129], e[129]; hex(g, got, (size_t) a->dbytes); hex(e, wants[j->want].digest, (size_t) a->dbytes);
                                                                char segs[300]; size_t so = 0; for (int q = 0; q < j->nseg && so + 12 < sizeof segs; q++) so += (size_t) snprintf(segs + so, sizeof segs - so, "%u,", j->seg[q]);
                                                                snprintf(key, sizeof key, "big-digest %s %s thr=%s", a->name, f->name, thr[ti] == (1ull << 29) ? "2^29" : thr[ti] == (1ull << 32) ? "2^32" : "2^32+2^29");
                                                                out_viol("C15", key, rb, "total %llu bytes, segments %s digest %s expected %s", (unsigned long long) j->total, segs, g, e);
                                                        }
                                                        out_count("big_jobs_completed", 1);
                                                        char cn[64]; snprintf(cn, sizeof cn, "big_jobs_%s", thr[ti] == (1ull << 29) ? "2^29" : thr[ti] == (1ull << 32) ? "2^32" : "2^32+2^29"); out_count(cn, 1);
                                                }
                                                ret = NULL;
                                        }
                                }
                        }
                        for (int k = 0; k < n; k++) free(J[k].ctx);
                        free(mgr);
                        char cn[64]; snprintf(cn, sizeof cn, "big_rounds_%s_%s", a->name, f->name); out_count(cn, 1);
                }
        }
        out_sample("{\"engine\":\"hashmb big\",\"alg\":\"%s\",\"families\":\"%s\",\"thresholds\":\"%s\",\"example_job\":{\"total\":%llu,\"segments\":[%u,%u,%u],\"nseg\":%d}}",
                   a->name, fams, ts, (unsigned long long) jobs[0][0][0][0].total, jobs[0][0][0][0].seg[0], jobs[0][0][0][0].seg[1], jobs[0][0][0][0].seg[2], jobs[0][0][0][0].nseg);
        out_finish();
        return viol_count() ? 1 : 0;
}
