#include "hashalgs.h"
int hashmb_big(int argc, char **argv) { (void) argc; (void) argv; out_err("big mode not built"); }
