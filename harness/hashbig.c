/* hashmb --mode big : C15, length accounting across the 2^29 / 2^32 / 2^32+2^29 byte totals.
 * All jobs hash the same periodic stream (a 64 MiB memfd mapped back to back, so one submit
 * can cover up to 2^32-1 bytes with 64 MiB of RAM) with different segmentations; the oracle
 * is one OpenSSL streaming pass with snapshots at the totals that are needed. */
#include "hashalgs.h"
#include <sys/mman.h>
#include <unistd.h>
#include <openssl/evp.h>
#include <multi_buffer.h>

#define PERIOD (64ull << 20)
#define NCOPY 74
static uint8_t *stream;         /* NCOPY * PERIOD bytes, periodic */

static void map_stream(void)
{
        int fd = memfd_create("verif-stream", 0);
        if (fd < 0 || ftruncate(fd, (off_t) PERIOD)) out_err("memfd_create/ftruncate failed");
        uint8_t *base = mmap(NULL, NCOPY * PERIOD, PROT_NONE, MAP_PRIVATE | MAP_ANONYMOUS | MAP_NORESERVE, -1, 0);
        if (base == MAP_FAILED) out_err("cannot reserve %llu bytes of address space", (unsigned long long) (NCOPY * PERIOD));
        for (int i = 0; i < NCOPY; i++)
                if (mmap(base + (size_t) i * PERIOD, PERIOD, i == 0 ? PROT_READ | PROT_WRITE : PROT_READ, MAP_SHARED | MAP_FIXED, fd, 0) == MAP_FAILED) out_err("mirror mmap failed");
        rng_t r; rng_seed(&r, g_seed ^ 0xb16b16);
        rng_fill(&r, base, PERIOD);
        mprotect(base, PERIOD, PROT_READ);
        stream = base;
}

typedef struct { uint64_t total; uint8_t digest[64]; } want_t;
static want_t wants[512]; static int nwants;
static int want_idx(uint64_t total)
{
        for (int i = 0; i < nwants; i++) if (wants[i].total == total) return i;
        if (nwants == 512) out_err("too many totals");
        wants[nwants].total = total;
        return nwants++;
}
static int cmp_u64(const void *a, const void *b) { uint64_t x = ((const want_t *) a)->total, y = ((const want_t *) b)->total; return x < y ? -1 : x > y; }
static void oracle(int ref_alg)
{
        const EVP_MD *md = ref_alg == REF_SHA1 ? EVP_sha1() : ref_alg == REF_SHA256 ? EVP_sha256() : ref_alg == REF_SHA512 ? EVP_sha512() : ref_alg == REF_MD5 ? EVP_md5() : EVP_sm3();
        qsort(wants, (size_t) nwants, sizeof wants[0], cmp_u64);
        EVP_MD_CTX *c = EVP_MD_CTX_new(), *snap = EVP_MD_CTX_new();
        if (!EVP_DigestInit_ex(c, md, NULL)) out_err("OpenSSL digest init failed");
        uint64_t pos = 0;
        for (int i = 0; i < nwants; i++) {
                while (pos < wants[i].total) {
                        uint64_t k = wants[i].total - pos; if (k > (1ull << 30)) k = 1ull << 30;
                        EVP_DigestUpdate(c, stream + pos, (size_t) k); pos += k;
                }
                unsigned l;
                EVP_MD_CTX_copy_ex(snap, c);
                EVP_DigestFinal_ex(snap, wants[i].digest, &l);
        }
        EVP_MD_CTX_free(c); EVP_MD_CTX_free(snap);
        /* cross-validate the oracle with the reference on a prefix */
        uint8_t a[64], b[64];
        ref_hash(ref_alg, stream, 300000, a);
        unsigned l; EVP_Digest(stream, 300000, b, &l, md, NULL);
        if (memcmp(a, b, (size_t) ref_alg_dlen[ref_alg])) out_err("reference and OpenSSL disagree on a prefix of the stream");
}

#define MAXSEG 24
typedef struct { uint32_t seg[MAXSEG]; int nseg, next; uint64_t total, accepted; uint8_t *ctx; int inflight, done; int want; } job_t;

/* segmentation of a stream of `total` bytes whose running total crosses `thr` at a chosen residue */
static int mix_bigpos;
#define ALL_LANES 7ull
#define WRAP32 9ull
static void plan(job_t *j, rng_t *r, uint64_t thr, int jidx, int block)
{
        if (thr == 0) {
                /* mixed sizes: one job with a single submit of 2^31.. bytes among short ones (lane-length relations inside the manager) */
                static const uint32_t hugev[] = { 0x80000000u, 0x80000040u, 0x8000003fu, 0xc0000000u };
                j->next = 0; j->accepted = 0; j->inflight = 0; j->done = 0; j->nseg = 0;
                if (jidx == mix_bigpos) {
                        uint32_t h = hugev[rng_below(r, 4)];
                        if (rng_below(r, 2)) j->seg[j->nseg++] = rng_below(r, 3 * (uint32_t) block);
                        j->seg[j->nseg++] = h;
                        if (rng_below(r, 2)) j->seg[j->nseg++] = rng_below(r, 200);
                } else {
                        int ns = 1 + (int) rng_below(r, 3);
                        for (int i = 0; i < ns; i++) j->seg[j->nseg++] = rng_below(r, 4) == 0 ? rng_below(r, 100000) : rng_below(r, 4 * (uint32_t) block);
                }
                j->total = 0; for (int i = 0; i < j->nseg; i++) j->total += j->seg[i];
                return;
        }
        if (thr == ALL_LANES) {
                /* every lane of the manager holds a single segment of at least 2^24 blocks at the same time (the packed per-lane
                 * lengths have their top nibbles set while the shortest lane is selected and subtracted); lengths are distinct */
                j->next = 0; j->accepted = 0; j->inflight = 0; j->done = 0; j->nseg = 1;
                uint64_t t = ((1ull << 24) + (uint64_t) jidx * 3 + rng_below(r, 3)) * (uint64_t) block + (jidx % 4 == 0 ? 0 : rng_below(r, (uint32_t) block));
                j->seg[0] = (uint32_t) t; j->total = t;
                return;
        }
        if (thr == WRAP32) {
                /* a buffered partial block of p bytes, then one segment whose length plus p reaches 2^31 (job 0) or 2^32 (job 1), then a short tail:
                 * sums of the two lengths formed in 32 bits or in a signed int show here */
                j->next = 0; j->accepted = 0; j->inflight = 0; j->done = 0; j->nseg = 3;
                uint32_t p = 1 + rng_below(r, (uint32_t) block - 1);
                j->seg[0] = p;
                j->seg[1] = jidx % 2 == 0 ? 0x80000000u + (uint32_t) block - rng_below(r, p) : 0xffffffffu - rng_below(r, p);
                j->seg[2] = rng_below(r, 200);
                j->total = (uint64_t) j->seg[0] + j->seg[1] + j->seg[2];
                return;
        }
        static const int64_t dthr[] = { 0, -1, 1, -64, 64, -63, 63, 7 };
        static const uint32_t huge[] = { 0xffffffffu, 0xffffffc0u, 0x80000000u, 0xfffffff7u };
        uint64_t resid = (uint64_t) rng_below(r, 3 * (uint32_t) block + 1);
        if (jidx % 5 == 0) resid = 0;
        uint64_t total = thr + resid + (jidx % 3 == 0 ? 0 : rng_below(r, 1u << 20));
        uint64_t cuts[MAXSEG]; int nc = 0;
        cuts[nc++] = (uint64_t) ((int64_t) thr + dthr[jidx % 8]);             /* a segment boundary at / next to the threshold */
        if (thr > (1ull << 31) && jidx % 2 == 0) {
                /* one single submit of nearly 2^32 bytes somewhere before the end */
                uint32_t h = huge[(jidx / 2) % 4];
                uint64_t start = rng_below(r, 1u << 16);
                if (start + h < total) { cuts[nc++] = start; cuts[nc++] = start + h; }
        }
        int extra = (int) rng_below(r, 4);
        for (int i = 0; i < extra; i++) cuts[nc++] = ((uint64_t) rng_u64(r)) % (total + 1);
        if (jidx % 4 == 1) cuts[nc++] = cuts[0];        /* zero-length UPDATE exactly at the boundary */
        /* sort, clamp, build segments each < 2^32 */
        for (int a = 0; a < nc; a++) for (int b = a + 1; b < nc; b++) if (cuts[b] < cuts[a]) { uint64_t t = cuts[a]; cuts[a] = cuts[b]; cuts[b] = t; }
        uint64_t pos = 0; j->nseg = 0;
        for (int a = 0; a <= nc; a++) {
                uint64_t end = a == nc ? total : cuts[a];
                if (end > total) end = total;
                if (end < pos) continue;
                while (end - pos > 0xffffffffull) { if (j->nseg < MAXSEG - 2) j->seg[j->nseg++] = 0xffffffffu; pos += 0xffffffffull; }
                if (j->nseg < MAXSEG - 1 || a == nc) j->seg[j->nseg++] = (uint32_t) (end - pos), pos = end;
        }
        if (pos != total) { j->seg[j->nseg - 1] += (uint32_t) (total - pos); }
        j->total = total; j->next = 0; j->accepted = 0; j->inflight = 0; j->done = 0;
}

/* lane-relation probe: one job with a single submit of >= 2^31 bytes at lane position `bigpos`, the unique shortest job at
 * `shortpos`, distinct medium jobs elsewhere; every (bigpos, shortpos) pair, through the submit path (manager filled) and the
 * flush path (one lane left free). Whatever is handed back first must be complete with the right digest. The manager is then
 * abandoned, so correct code never hashes the huge job and a trial costs microseconds. */
static void lane_pairs(const halg_t *a, const hfam_t *f)
{
        int L = f->lanes > 32 ? 32 : f->lanes;
        if (!strcmp(f->name, "base") || !strcmp(f->name, "sb_sse4")) return;   /* synchronous families hold nothing */
        uint8_t *mgr = aligned_alloc(64, (a->mgr_size + 63) & ~(size_t) 63);
        uint8_t *ctx[33];
        for (int i = 0; i <= L; i++) ctx[i] = aligned_alloc(64, (a->ctx_size + 63) & ~(size_t) 63);
        static const uint32_t hugev[] = { 0x80000000u, 0x80000040u, 0xc0000000u, 0xffffffc0u, 0xffffffffu, 0x8000003fu };
        char rb[300], key[160];
        /* how many jobs the manager takes before it starts working (sha-ni managers start at 2 although their layout has 4 lanes) */
        {
                int cap = 0;
                f->init(mgr);
                for (int i = 0; i <= L; i++) { a->ctx_init(ctx[i]); cap++; if (f->submit(mgr, ctx[i], stream + 4096 * (uint64_t) i, (uint32_t) a->block * (uint32_t) (8 + i), ISAL_HASH_ENTIRE)) break; }
                while (f->flush(mgr)) ;
                if (cap < L) L = cap;
                out_max("lane_probe_capacity", (uint64_t) L);
        }
        int npairs = L * L, nrand = (int) arg_int("--nrand", 200);
        static const uint32_t mags[] = { 1, 2, 3, 15, 16, 17, 255, 256, 257, 4095, 4096, 4097, 4100, 65535, 65536, 65537, 1u << 20, (1u << 24) + 1 };
        int npat = 12 * 3;      /* lane subsets (halves, parities, quarters, all-but-one) that are huge together, three huge values each */
        for (int path = 0; path < 2; path++) for (int t = 0; t < npairs + nrand + npat; t++) {
                int n = path == 0 ? L : L - 1;
                int bigpos = -1, shortpos = -1;
                uint32_t len[33]; uint64_t off[33]; int small[33]; uint32_t hv = 0;
                if (t >= npairs + nrand) {
                        /* a whole subset of the lanes holds jobs of >= 2^31 bytes (the sign bit of the packed lengths is set in every element of one
                         * half / parity class / quarter of the vector that the minimum is reduced over), the other lanes distinct short jobs */
                        int pt = (t - npairs - nrand) / 3, hvk = (t - npairs - nrand) % 3, nh = 0;
                        for (int i = 0; i < n; i++) {
                                int huge = pt == 0 ? i < n / 2 : pt == 1 ? i >= n / 2 : pt == 2 ? (i & 1) == 0 : pt == 3 ? (i & 1) : pt < 8 ? i * 4 / n == pt - 4 : pt == 8 ? i != 0 : pt == 9 ? i != n - 1 : pt == 10 ? (i & 2) == 0 : (i & 4) == 0;
                                if (n < 2) huge = 0;
                                len[i] = huge ? hugev[(i + hvk * 2) % 6] : (uint32_t) a->block * (uint32_t) (2 + i) + (uint32_t) (i % 5);
                                small[i] = !huge; nh += huge;
                        }
                        if (nh == 0 || nh == n) continue;
                        bigpos = -2;
                } else if (t < npairs) {
                        /* one job of >= 2^31 bytes at bigpos, the unique shortest at shortpos, distinct medium ones elsewhere */
                        bigpos = t / L; shortpos = t % L;
                        if (bigpos == shortpos || bigpos >= n || shortpos >= n) continue;
                        hv = hugev[(bigpos * 7 + shortpos) % 6];
                        for (int i = 0; i < n; i++) { len[i] = i == bigpos ? hv : i == shortpos ? (uint32_t) a->block + (uint32_t) (shortpos % 3) : (uint32_t) a->block * (uint32_t) (4 + i) + (uint32_t) (i % 5); small[i] = i != bigpos; }
                } else {
                        /* block counts of very different magnitudes in every lane (each power-of-16 boundary of the packed length words);
                         * one lane is always short so that correct code retires something after a few blocks */
                        rng_t r; rng_seed(&r, mix64(g_seed ^ 0x3a95, mix64((uint64_t) (f - a->fam) * 2 + (uint64_t) path, (uint64_t) t)));
                        for (int i = 0; i < n; i++) {
                                uint64_t blocks = mags[rng_below(&r, sizeof mags / sizeof mags[0])];
                                if (rng_below(&r, 6) == 0) blocks = (1ull << 25) / ((uint64_t) a->block / 64);      /* 2 GiB */
                                uint64_t bytes = blocks * (uint64_t) a->block + (uint64_t) (i * 3 % a->block);
                                if (bytes > 0xffffffffull) bytes = 0xffffffc0u;
                                len[i] = (uint32_t) bytes; small[i] = blocks <= 4100;
                        }
                        int sp = (int) rng_below(&r, (uint32_t) n);
                        len[sp] = (uint32_t) a->block * (1 + rng_below(&r, 3)) + (uint32_t) sp; small[sp] = 1;
                }
                int nsmall_target = 0;
                for (int i = 0; i < n; i++) { off[i] = (uint64_t) i * 4096 + (uint64_t) (i % 7); nsmall_target += small[i]; }
                snprintf(rb, sizeof rb, "{\"engine\":\"hashmb\",\"mode\":\"big\",\"thr\":\"pairs\",\"alg\":\"%s\",\"fam\":\"%s\",\"path\":\"%s\",\"trial\":%d,\"bigpos\":%d,\"shortpos\":%d}", a->name, f->name, path ? "flush" : "submit", t, bigpos, shortpos);
                snprintf(cur_replay, sizeof cur_replay, "%s", rb);
                f->init(mgr);
                /* submit everything, then drain every job except the huge one; each hand-back is judged */
                int returned[33] = { 0 }, nsmall = 0, bad = 0, i = 0, hugedone = 0;
                out_count("lane_pair_trials", 1);
                feat(mix64(0x9a125, mix64((uint64_t) (f - a->fam) * 2 + (uint64_t) path, (uint64_t) t)));
                while (nsmall < nsmall_target && !bad) {
                        uint8_t *ret;
                        if (i < n) {
                                a->ctx_init(ctx[i]);
                                LABEL("%s %s lane-pairs %s big@%d short@%d submit %d len=%u", a->name, f->name, path ? "flush" : "submit", bigpos, shortpos, i, len[i]);
                                ret = f->submit(mgr, ctx[i], stream + off[i], len[i], ISAL_HASH_ENTIRE);
                                i++;
                        } else {
                                LABEL("%s %s lane-pairs flush big@%d short@%d returned=%d", a->name, f->name, bigpos, shortpos, nsmall);
                                ret = f->flush(mgr);
                                if (!ret) { snprintf(key, sizeof key, "lane-pairs-stranded %s %s", a->name, f->name); out_viol(g_prop, key, rb, "%s path: flush returned nothing while %d of %d short jobs are still held (trial %d, huge job at position %d, shortest at %d)", path ? "flush" : "submit", nsmall_target - nsmall, nsmall_target, t, bigpos, shortpos); bad = 1; }
                        }
                        cur_label[0] = 0;
                        if (!ret) continue;
                        int ri = -1; for (int k = 0; k < n; k++) if (ctx[k] == ret) ri = k;
                        if (ri < 0 || returned[ri]) { snprintf(key, sizeof key, "lane-pairs-phantom %s %s", a->name, f->name); out_viol(g_prop, key, rb, "an unknown or already returned context was handed back"); bad = 1; break; }
                        returned[ri] = 1;
                        if (!small[ri]) {
                                /* legal but never needed by correct code before the short jobs are out: verify it (one OpenSSL pass, only ever paid on a tree that does this) */
                                hugedone = 1; out_count("lane_pair_huge_completed", 1);
                                uint8_t got[64] = { 0 }, exp[64] = { 0 }; unsigned dl;
                                halg_digest_bytes(a, ctx[ri], got);
                                const EVP_MD *md = a->ref_alg == REF_SHA1 ? EVP_sha1() : a->ref_alg == REF_SHA256 ? EVP_sha256() : a->ref_alg == REF_SHA512 ? EVP_sha512() : a->ref_alg == REF_MD5 ? EVP_md5() : EVP_sm3();
                                EVP_Digest(stream + off[ri], len[ri], exp, &dl, md, NULL);
                                if (*(int32_t *) (ctx[ri] + a->off_status) != ISAL_HASH_CTX_STS_COMPLETE || memcmp(got, exp, (size_t) a->dbytes)) {
                                        snprintf(key, sizeof key, "lane-pairs-digest %s %s", a->name, f->name);
                                        out_viol(g_prop, key, rb, "%s path, trial %d: the %u-byte job at position %d was handed back %s with a wrong digest or status %d", path ? "flush" : "submit", t, len[ri], ri, nsmall < nsmall_target ? "before the short jobs" : "", *(int32_t *) (ctx[ri] + a->off_status));
                                        bad = 1;
                                }
                                continue;
                        }
                        nsmall++;
                        { static int ns; if (ns < 44) { ns++; clog_on = 1;
                          clog_title("lane-magnitude probe: the lanes of one manager hold jobs of very different lengths (one of them >= 2^31 bytes or 2 GiB); the short jobs must be handed back, complete and with the reference digest, while the long one is still in flight");
                          clog_event("%s %s %s path trial %d (long job at position %d, len %u): handed back job %d of length %u as number %d of %d short jobs, status %d", a->name, f->name, path ? "flush" : "submit", t, bigpos, bigpos >= 0 ? len[bigpos] : 0, ri, len[ri], nsmall, nsmall_target,
                                     *(int32_t *) (ctx[ri] + a->off_status));
                          clog_on = 0; } }
                        uint8_t got[64] = { 0 }, exp[64] = { 0 };
                        halg_digest_bytes(a, ctx[ri], got);
                        if (len[ri] <= 4096) ref_hash(a->ref_alg, stream + off[ri], len[ri], exp);
                        else { unsigned dl; EVP_Digest(stream + off[ri], len[ri], exp, &dl, a->ref_alg == REF_SHA1 ? EVP_sha1() : a->ref_alg == REF_SHA256 ? EVP_sha256() : a->ref_alg == REF_SHA512 ? EVP_sha512() : a->ref_alg == REF_MD5 ? EVP_md5() : EVP_sm3(), NULL); }
                        if (*(int32_t *) (ctx[ri] + a->off_status) != ISAL_HASH_CTX_STS_COMPLETE || memcmp(got, exp, (size_t) a->dbytes)) {
                                char g[129], e[129]; hex(g, got, (size_t) a->dbytes); hex(e, exp, (size_t) a->dbytes);
                                snprintf(key, sizeof key, "lane-pairs-digest %s %s", a->name, f->name);
                                out_viol(g_prop, key, rb, "%s path, trial %d (huge job at position %d, shortest at %d): job %d (%u bytes) handed back with status %d digest %s expected %s%s", path ? "flush" : "submit", t, bigpos, shortpos, ri, len[ri], *(int32_t *) (ctx[ri] + a->off_status), g, e, hugedone ? " (after a huge job)" : "");
                                bad = 1;
                        }
                }
                if (bad) goto done_family;      /* one witness per family is enough (a broken manager can be slow) */
        }
done_family:
        for (int i = 0; i <= L; i++) free(ctx[i]);
        free(mgr);
}

/* long life of one manager with a lane left idle: lanes-1 jobs of 4 x (2^32-64) + 2^30 bytes each (> 2^34 bytes per lane) driven
 * through submit + flush, so whatever per-lane bookkeeping the manager keeps for idle lanes is carried across > 2^28 blocks */
static void decay_run(const halg_t *a, const hfam_t *f)
{
        if (!strcmp(f->name, "base") || !strcmp(f->name, "sb_sse4")) return;
        int n = f->lanes > 32 ? 31 : f->lanes - 1; if (n < 1) n = 1;
        static const uint32_t segs[5] = { 0xffffffc0u, 0xffffffc0u, 0xffffffc0u, 0xffffffc0u, 0x40000123u };
        uint64_t total = 0; for (int k = 0; k < 5; k++) total += segs[k];
        const EVP_MD *md = a->ref_alg == REF_SHA1 ? EVP_sha1() : a->ref_alg == REF_SHA256 ? EVP_sha256() : a->ref_alg == REF_SHA512 ? EVP_sha512() : a->ref_alg == REF_MD5 ? EVP_md5() : EVP_sm3();
        static uint8_t exp[5][64]; static int have[5];
        if (!have[a->ref_alg]) { EVP_MD_CTX *c = EVP_MD_CTX_new(); unsigned dl; EVP_DigestInit_ex(c, md, NULL); for (int k = 0; k < 5; k++) for (uint64_t o = 0; o < segs[k]; o += 1u << 30) EVP_DigestUpdate(c, stream + o, segs[k] - o > (1u << 30) ? (1u << 30) : segs[k] - o); EVP_DigestFinal_ex(c, exp[a->ref_alg], &dl); EVP_MD_CTX_free(c); have[a->ref_alg] = 1; }
        uint8_t *mgr = aligned_alloc(64, (a->mgr_size + 63) & ~(size_t) 63), *ctx[32];
        char rb[200], key[160];
        snprintf(rb, sizeof rb, "{\"engine\":\"hashmb\",\"mode\":\"big\",\"thr\":\"decay\",\"alg\":\"%s\",\"fam\":\"%s\"}", a->name, f->name);
        snprintf(cur_replay, sizeof cur_replay, "%s", rb);
        f->init(mgr);
        for (int i = 0; i < n; i++) { ctx[i] = aligned_alloc(64, (a->ctx_size + 63) & ~(size_t) 63); a->ctx_init(ctx[i]); }
        for (int k = 0; k < 5; k++) {
                int pending = 0;
                for (int i = 0; i < n; i++) {
                        LABEL("%s %s decay submit seg %d job %d", a->name, f->name, k, i);
                        if (!f->submit(mgr, ctx[i], stream, segs[k], k == 0 ? ISAL_HASH_FIRST : k == 4 ? ISAL_HASH_LAST : ISAL_HASH_UPDATE)) pending++;
                        cur_label[0] = 0;
                }
                int guard = 4 * n + 8;
                while (pending > 0 && guard-- > 0) { LABEL("%s %s decay flush seg %d pending %d", a->name, f->name, k, pending); void *r = f->flush(mgr); cur_label[0] = 0; if (!r) break; pending--; }
                if (pending) { snprintf(key, sizeof key, "decay-stranded %s %s", a->name, f->name); out_viol(g_prop, key, rb, "after segment %d, %d job(s) were not handed back by flush", k, pending); break; }
                out_count("decay_segments", (uint64_t) n);
        }
        for (int i = 0; i < n; i++) {
                uint8_t got[64] = { 0 }; halg_digest_bytes(a, ctx[i], got);
                if (*(uint64_t *) (ctx[i] + a->off_total) != total) { snprintf(key, sizeof key, "total-length %s %s", a->name, f->name); out_viol(g_prop, key, rb, "total_length %llu after %llu bytes", (unsigned long long) *(uint64_t *) (ctx[i] + a->off_total), (unsigned long long) total); }
                if (memcmp(got, exp[a->ref_alg], (size_t) a->dbytes) || *(int32_t *) (ctx[i] + a->off_status) != ISAL_HASH_CTX_STS_COMPLETE) { snprintf(key, sizeof key, "decay-digest %s %s", a->name, f->name); out_viol(g_prop, key, rb, "job %d of %d: wrong digest or status after %llu bytes with one lane idle", i, n, (unsigned long long) total); }
                free(ctx[i]);
        }
        out_count("decay_runs", 1); out_count("big_handbacks", (uint64_t) n * 5);
        feat(mix64(0xdeca1, (uint64_t) (f - a->fam)));
        free(mgr);
}

int hashmb_big(int argc, char **argv)
{
        (void) argc; (void) argv;
        const halg_t *a = halg_by_name(arg_str("--alg", "sha256"));
        if (!a) out_err("--alg required");
        const char *fams = arg_str("--fam", "all");
        if (strstr(arg_str("--thr", "29"), "decay")) {
                map_stream();
                for (int fi = 0; fi < a->nfam; fi++) {
                        if (strcmp(fams, "all")) { char t[128], w[32]; snprintf(t, sizeof t, ",%s,", fams); snprintf(w, sizeof w, ",%s,", a->fam[fi].name); if (!strstr(t, w)) continue; }
                        decay_run(a, &a->fam[fi]);
                }
                out_sample("{\"engine\":\"hashmb big\",\"mode\":\"decay\",\"alg\":\"%s\",\"families\":\"%s\"}", a->name, fams);
                out_finish();
                return viol_count() ? 1 : 0;
        }
        if (strstr(arg_str("--thr", "29"), "pairs")) {
                map_stream();
                for (int fi = 0; fi < a->nfam; fi++) {
                        if (strcmp(fams, "all")) { char t[128], w[32]; snprintf(t, sizeof t, ",%s,", fams); snprintf(w, sizeof w, ",%s,", a->fam[fi].name); if (!strstr(t, w)) continue; }
                        lane_pairs(a, &a->fam[fi]);
                }
                out_sample("{\"engine\":\"hashmb big\",\"mode\":\"lane pairs\",\"alg\":\"%s\",\"families\":\"%s\"}", a->name, fams);
                out_finish();
                return viol_count() ? 1 : 0;
        }
        int rounds = (int) arg_int("--rounds", 1);
        uint64_t thr[3]; int nthr = 0;
        const char *ts = arg_str("--thr", "29");
        if (strstr(ts, "mix")) thr[nthr++] = 0;
        if (strstr(ts, "lanes")) thr[nthr++] = ALL_LANES;
        if (strstr(ts, "wrap")) thr[nthr++] = WRAP32;
        if (strstr(ts, "29")) thr[nthr++] = 1ull << 29;
        if (strstr(ts, "32")) thr[nthr++] = 1ull << 32;
        if (strstr(ts, "33")) thr[nthr++] = (1ull << 32) + (1ull << 29);
        map_stream();
        /* plans first (they decide which totals the oracle must produce) */
        static job_t jobs[8][3][4][40];          /* [fam][thr][round][job] */
        int njobs[8];
        for (int fi = 0; fi < a->nfam; fi++) {
                const hfam_t *f = &a->fam[fi];
                int sync = !strcmp(f->name, "base") || !strcmp(f->name, "sb_sse4");
                njobs[fi] = sync ? 3 : f->lanes + 1;
                if (njobs[fi] > 36) njobs[fi] = 36;
                if (strcmp(fams, "all")) { char t[128], w[32]; snprintf(t, sizeof t, ",%s,", fams); snprintf(w, sizeof w, ",%s,", f->name); if (!strstr(t, w)) { njobs[fi] = 0; continue; } }
                for (int ti = 0; ti < nthr; ti++) for (int rd = 0; rd < rounds; rd++) for (int k = 0; k < njobs[fi]; k++) {
                        rng_t r; rng_seed(&r, mix64(g_seed ^ 0xb16, (uint64_t) (((fi * 4 + ti) * 8 + rd) * 64 + k)));
                        mix_bigpos = (int) (mix64(g_seed, (uint64_t) (fi * 16 + rd)) % (uint64_t) njobs[fi]);
                        plan(&jobs[fi][ti][rd][k], &r, thr[ti], k + rd * 7, a->block);
                        want_idx(jobs[fi][ti][rd][k].total);
                }
        }
        for (int fi = 0; fi < a->nfam; fi++) for (int ti = 0; ti < nthr; ti++) for (int rd = 0; rd < rounds; rd++) for (int k = 0; k < njobs[fi]; k++)
                jobs[fi][ti][rd][k].want = -1;
        oracle(a->ref_alg);
        for (int fi = 0; fi < a->nfam; fi++) for (int ti = 0; ti < nthr; ti++) for (int rd = 0; rd < rounds; rd++) for (int k = 0; k < njobs[fi]; k++)
                for (int w = 0; w < nwants; w++) if (wants[w].total == jobs[fi][ti][rd][k].total) jobs[fi][ti][rd][k].want = w;
        char rb[300];
        for (int fi = 0; fi < a->nfam; fi++) {
                const hfam_t *f = &a->fam[fi];
                for (int ti = 0; ti < nthr && njobs[fi]; ti++) for (int rd = 0; rd < rounds; rd++) {
                        job_t *J = jobs[fi][ti][rd]; int n = njobs[fi];
                        /* all-lanes rounds come in three shapes: lanes+1 jobs (the kernel starts on a submit), lanes-1 jobs and 2 jobs (it starts on a flush) */
                        if (thr[ti] == WRAP32) n = 2;
                        if (thr[ti] == ALL_LANES) { int shape = (rd + (int) (g_seed % 3) + fi) % 3; if (shape == 1 && f->lanes > 2) n = f->lanes - 1; else if (shape == 2) n = 2; if (n > njobs[fi]) n = njobs[fi]; }
                        snprintf(rb, sizeof rb, "{\"engine\":\"hashmb\",\"mode\":\"big\",\"alg\":\"%s\",\"fam\":\"%s\",\"thr\":%llu,\"round\":%d,\"seed\":%llu}", a->name, f->name, (unsigned long long) thr[ti], rd, (unsigned long long) g_seed);
                        snprintf(cur_replay, sizeof cur_replay, "%s", rb);
                        uint8_t *mgr = aligned_alloc(64, (a->mgr_size + 63) & ~(size_t) 63);
                        f->init(mgr);
                        for (int k = 0; k < n; k++) { J[k].ctx = aligned_alloc(64, (a->ctx_size + 63) & ~(size_t) 63); memset(J[k].ctx, 0x5a, a->ctx_size); a->ctx_init(J[k].ctx); }
                        int remaining = n, bad = 0;
                        while (remaining > 0 && !bad) {
                                int progressed = 0;
                                for (int k = 0; k <= n && !bad; k++) {
                                        uint8_t *ret;
                                        if (k < n) {
                                                job_t *j = &J[k];
                                                if (j->inflight || j->done) continue;
                                                int flags = (j->next == 0 ? ISAL_HASH_FIRST : 0) | (j->next == j->nseg - 1 ? ISAL_HASH_LAST : 0);
                                                uint32_t len = j->seg[j->next];
                                                LABEL("%s %s big submit total=%llu+%u flags=%d", a->name, f->name, (unsigned long long) j->accepted, len, flags);
                                                ret = f->submit(mgr, j->ctx, stream + j->accepted, len, flags);
                                                cur_label[0] = 0;
                                                j->accepted += len; j->next++; j->inflight = 1; progressed = 1;
                                                out_count("big_submits", 1); out_count("big_bytes", len);
                                                if (len >= 0x80000000u) out_count("big_single_submits_ge_2^31", 1);
                                                if (len == 0) out_count("big_zero_length_updates", 1);
                                                feat(mix64(0xb16, mix64((uint64_t) fi * 8 + (uint64_t) ti, mix64(j->accepted % (2 * (uint64_t) a->block), (uint64_t) flags * 4 + (j->accepted >= thr[ti])))));
                                        } else {
                                                if (progressed) continue;
                                                LABEL("%s %s big flush", a->name, f->name);
                                                ret = f->flush(mgr);
                                                cur_label[0] = 0;
                                                if (!ret) { out_viol(g_prop, "big-stranded", rb, "%s %s: flush returned nothing while %d job(s) are unfinished", a->name, f->name, remaining); bad = 1; break; }
                                        }
                                        while (ret) {
                                                int ri = -1;
                                                for (int q = 0; q < n; q++) if (J[q].ctx == ret) ri = q;
                                                if (ri < 0 || !J[ri].inflight) { out_viol(g_prop, "big-phantom", rb, "%s %s: unexpected context handed back", a->name, f->name); bad = 1; break; }
                                                job_t *j = &J[ri];
                                                j->inflight = 0;
                                                uint64_t tl = *(uint64_t *) (j->ctx + a->off_total);
                                                char key[160];
                                                if (tl != j->accepted) {
                                                        snprintf(key, sizeof key, "total-length %s %s", a->name, f->name);
                                                        out_viol(g_prop, key, rb, "context reports total_length %llu after segments summing to %llu (threshold 2^%s)", (unsigned long long) tl, (unsigned long long) j->accepted, thr[ti] == 0 ? "mixed" : thr[ti] == (1ull << 29) ? "29" : thr[ti] == (1ull << 32) ? "32" : "32+2^29");
                                                }
                                                out_count("big_handbacks", 1);
                                                if (j->next == j->nseg) {
                                                        j->done = 1; remaining--;
                                                        uint8_t got[64] = { 0 };
                                                        halg_digest_bytes(a, j->ctx, got);
                                                        if (*(int32_t *) (j->ctx + a->off_status) != ISAL_HASH_CTX_STS_COMPLETE) { snprintf(key, sizeof key, "big-not-complete %s %s", a->name, f->name); out_viol(g_prop, key, rb, "job not complete after LAST"); }
                                                        if (j->want < 0 || memcmp(got, wants[j->want].digest, (size_t) a->dbytes)) {
                                                                char g[129], e[129]; hex(g, got, (size_t) a->dbytes); hex(e, wants[j->want].digest, (size_t) a->dbytes);
                                                                char segs[300]; size_t so = 0; for (int q = 0; q < j->nseg && so + 12 < sizeof segs; q++) so += (size_t) snprintf(segs + so, sizeof segs - so, "%u,", j->seg[q]);
                                                                snprintf(key, sizeof key, "big-digest %s %s thr=%s", a->name, f->name, thr[ti] == 0 ? "mixed-sizes" : thr[ti] == ALL_LANES ? "all-lanes-2^24-blocks" : thr[ti] == WRAP32 ? "partial+segment-reaches-2^31/2^32" : thr[ti] == (1ull << 29) ? "2^29" : thr[ti] == (1ull << 32) ? "2^32" : "2^32+2^29");
                                                                out_viol(g_prop, key, rb, "total %llu bytes, segments %s digest %s expected %s", (unsigned long long) j->total, segs, g, e);
                                                        }
                                                        { static int ns; if (ns < 44) { ns++; char g[129]; hex(g, got, (size_t) a->dbytes);
                                                          char segs[160]; size_t so = 0; for (int q = 0; q < j->nseg && so + 12 < sizeof segs; q++) so += (size_t) snprintf(segs + so, sizeof segs - so, "%u,", j->seg[q]);
                                                          clog_on = 1;
                                                          clog_title("multi-GiB streams across the length thresholds: each job is fed from a periodic memfd mirror in the listed segments (FIRST ... LAST), the context's total_length is read at every hand-back, the digest is compared with an OpenSSL streaming pass over the same bytes");
                                                          clog_event("%s %s: job of %llu bytes in segments [%s] completed with total_length %llu, digest %s, %s", a->name, f->name, (unsigned long long) j->total, segs, (unsigned long long) tl, g,
                                                                     j->want >= 0 && !memcmp(got, wants[j->want].digest, (size_t) a->dbytes) ? "equal to OpenSSL" : "DIFFERS");
                                                          clog_on = 0; } }
                                                        out_count("big_jobs_completed", 1);
                                                        char cn[64]; snprintf(cn, sizeof cn, "big_jobs_%s", thr[ti] == 0 ? "mixed-sizes" : thr[ti] == ALL_LANES ? "all-lanes-2^24-blocks" : thr[ti] == WRAP32 ? "partial+segment-reaches-2^31/2^32" : thr[ti] == (1ull << 29) ? "2^29" : thr[ti] == (1ull << 32) ? "2^32" : "2^32+2^29"); out_count(cn, 1);
                                                }
                                                ret = NULL;
                                        }
                                }
                        }
                        for (int k = 0; k < n; k++) free(J[k].ctx);
                        free(mgr);
                        char cn[64]; snprintf(cn, sizeof cn, "big_rounds_%s_%s", a->name, f->name); out_count(cn, 1);
                }
        }
        out_sample("{\"engine\":\"hashmb big\",\"alg\":\"%s\",\"families\":\"%s\",\"thresholds\":\"%s\",\"example_job\":{\"total\":%llu,\"segments\":[%u,%u,%u],\"nseg\":%d}}",
                   a->name, fams, ts, (unsigned long long) jobs[0][0][0][0].total, jobs[0][0][0][0].seg[0], jobs[0][0][0][0].seg[1], jobs[0][0][0][0].seg[2], jobs[0][0][0][0].nseg);
        out_finish();
        return viol_count() ? 1 : 0;
}
