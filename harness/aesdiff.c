/* aesdiff - differential oracles for the AES modes against independent references.
 *   --what gcm        C02 one-shot GCM vs SP 800-38D reference
 *   --what gcmstream  C07 init/update* /finalize vs one-shot and reference
 *   --what xts        C03 XTS vs IEEE 1619 reference, expanded-key forms, len<16 untouched
 *   --what cbc        C04 key expansion vs FIPS-197, CBC vs SP 800-38A
 * Every case runs on all selected families, through the family symbols and through the
 * isal_/legacy API forced onto the family with the virtual-CPU hook. */
#include "aesfam.h"
#include <isal_crypto_api.h>
#include <aes_gcm.h>
#include <aes_cbc.h>
#include <aes_xts.h>
#include <sys/mman.h>
#include <unistd.h>
#include <openssl/evp.h>

enum { R_FAM, R_ISAL, R_LEGACY };
static const char *const route_name[] = { "fam", "isal", "legacy" };
static int want_route[3];
static const char *famsel;
static int fam_selected(const char *n)
{
        if (!strcmp(famsel, "all")) return 1;
        char t[200], w[64]; snprintf(t, sizeof t, ",%s,", famsel); snprintf(w, sizeof w, ",%s,", n);
        return strstr(t, w) != NULL;
}
static char rbuf[400];
#define REPLAY(what, fam, c) (snprintf(rbuf, sizeof rbuf, "{\"engine\":\"aesdiff\",\"what\":\"%s\",\"fam\":\"%s\",\"seed\":%llu,\"case\":%llu}", what, fam, (unsigned long long) g_seed, (unsigned long long) (c)), snprintf(cur_replay, sizeof cur_replay, "%s", rbuf), rbuf)

static uint8_t *arena; static size_t arena_sz = 24u << 20, arena_off;
static uint8_t *A(size_t n, size_t align, size_t mis)
{
        size_t o = (arena_off + align - 1) & ~(align - 1);
        o += mis;
        if (o + n + 64 > arena_sz) out_err("aesdiff arena exhausted");
        arena_off = o + n + 64;       /* 64 spare bytes between objects */
        return arena + o;
}

/* start of a case: usually at the start of the arena; every fourth case so that its buffers lie around the 4 GiB-aligned
 * address in the middle of the arena (when the arena could be mapped there) */
static int arena_straddles;
static void arena_reset(rng_t *r, size_t len)
{
        arena_off = 0;
        size_t span = 3 * len + 2048;
        if (arena_straddles && 4 * len + 65536 < arena_sz / 2 && rng_below(r, 4) == 0) {
                arena_off = arena_sz / 2 - rng_below(r, (uint32_t) span + 1);
                out_count("cases_placed_across_4GiB_boundary", 1);
        }
}

static void verify_binding(const char *what, void *entry, void *want, const char *fam)
{
        if (!disp_is_resolved(entry)) return;
        if (disp_target_of(entry) != want) out_err("forced dispatch: %s entry did not bind to family %s", what, fam);
}

/* ------------------------------------------------------------------ GCM */
static uint32_t gcm_len_for(rng_t *r, uint64_t c, int thorough)
{
        if (c <= 1100) return (uint32_t) c;
        /* every block count from 230 to 329 with tails 0, 1 and 15: with a 12-byte IV the low counter byte is (block index + 2) mod 256, so each unrolled
         * counter-increment site (8/16/48 blocks wide, one macro instance per residual block count) meets its low-byte wrap here, not only when a random length happens to fit */
        if (c <= 1400) { static const uint32_t t[3] = { 0, 1, 15 }; return 16 * (230 + (uint32_t) (c - 1101) / 3) + t[(c - 1101) % 3]; }
        switch (rng_below(r, 10)) {
        case 0: return rng_below(r, 65536);
        case 1: return 16 * rng_below(r, 600) + rng_below(r, 3) - 1 + 1;
        case 2: return thorough && rng_below(r, 20) == 0 ? (1u << 20) + rng_below(r, 100) : rng_below(r, 20000);
        case 3: return 768 * (1 + rng_below(r, 8)) + rng_below(r, 33) - 16;     /* 48-block loop edges */
        case 4: return 128 * (1 + rng_below(r, 40)) + rng_below(r, 33) - 16;     /* 8-block loop edges */
        default: return rng_below(r, 2300);
        }
}
static uint32_t aad_len_for(rng_t *r, uint64_t c)
{
        if (c % 5 == 0) return (uint32_t) ((c / 5) % 81);
        switch (rng_below(r, 6)) {
        case 0: return 0;
        case 1: return 16 * (1 + rng_below(r, 128)) + rng_below(r, 3) - 1;
        case 2: return rng_below(r, 2049);
        case 3: return 12;      /* IPsec-style */
        default: return rng_below(r, 100);
        }
}

static void gcm_expected(int ks, int use_ossl, const uint8_t *key, const uint8_t *iv, const uint8_t *aad, uint32_t aadlen,
                         const uint8_t *pt, uint8_t *ct, uint32_t len, uint8_t tag[16])
{
        if (!use_ossl) { ref_aes_t a; ref_aes_expand(&a, key, ks_bits2[ks]); ref_gcm(&a, 1, iv, aad, aadlen, pt, ct, len, tag); }
        else if (ossl_gcm(ks_bits2[ks], 1, key, iv, aad, aadlen, pt, ct, len, tag)) out_err("OpenSSL GCM oracle failed");
}

static void fill_keydata(const gcmfam_t *f, int ks, int route, const uint8_t *key, uint8_t *kd, rng_t *r)
{
        if (route == R_ISAL) { int rc = gcm_isal.pre[ks](key, kd); if (rc) out_viol(g_prop, "gcm-pre-failed isal", rbuf, "isal_aes_gcm_pre returned %d", rc); }
        else if (route == R_LEGACY) gcm_legacy.pre[ks](key, kd);
        else {
                /* family route: schedule from the reference (FIPS-197), hash keys from the family's precompute */
                ref_aes_t a; ref_aes_expand(&a, key, ks_bits2[ks]);
                if (rng_below(r, 2)) memcpy(kd, a.enc, (size_t) 16 * (a.nr + 1));
                else { uint8_t tmp[16 * 15]; keyexp_fams[rng_below(r, 2)].f[ks ? 2 : 0](key, kd, tmp); }
                f->s.precomp[ks](kd);
        }
}

static void gcm_case(const gcmfam_t *f, uint64_t c, int stream, int thorough)
{
        rng_t r; rng_seed(&r, mix64(g_seed ^ (stream ? 0x57 : 0x1), c));
        uint32_t len = gcm_len_for(&r, c, thorough), aadlen = aad_len_for(&r, c);
        static const uint32_t tl[3] = { 8, 12, 16 };
        uint32_t taglen = tl[rng_below(&r, 3)];
        uint8_t key[32], iv0[12];
        rng_fill(&r, key, 32); rng_fill(&r, iv0, 12);
        arena_reset(&r, len);
        int nt = rng_below(&r, 3) == 0, inplace = !nt && rng_below(&r, 2);
        size_t dal = nt ? 64 : 1, dmis = nt ? 0 : rng_below(&r, 64);
        uint8_t *pt = A(len, 64, dmis), *out = inplace ? NULL : A(len, 64, nt ? 0 : rng_below(&r, 64)), *back = A(len, 64, nt ? 0 : rng_below(&r, 64));
        uint8_t *aad = A(aadlen, 64, rng_below(&r, 64)), *iv = A(12, 16, rng_below(&r, 16)), *tag = A(16, 16, rng_below(&r, 16)), *tag2 = A(16, 16, rng_below(&r, 16));
        uint8_t *exp = A(len, 64, 0), *ptc = A(len, 64, 0);
        (void) dal;
        rng_fill(&r, ptc, len); rng_fill(&r, aad, aadlen); memcpy(iv, iv0, 12);
        if (rng_below(&r, 8) == 0) memset(ptc, 0, len);
        uint8_t etag[16];
        for (int ks = 0; ks < 2; ks++) {
                gcm_expected(ks, len > 4096, key, iv0, aad, aadlen, ptc, exp, len, etag);
                for (int route = 0; route < 3; route++) {
                        if (!want_route[route]) continue;
                        uint8_t *kdraw = A(sizeof(struct isal_gcm_key_data) + 64, 64, 0);
                        uint8_t *kd = kdraw + 16 * rng_below(&r, 4);
                        uint8_t *ctx = A(sizeof(struct isal_gcm_context_data), 16, 8 * ((c + (uint64_t) route) & 1));       /* the context type is 8-byte aligned, not 16 */
                        rng_fill(&r, kdraw, sizeof(struct isal_gcm_key_data) + 64); rng_fill(&r, ctx, sizeof(struct isal_gcm_context_data));
                        LABEL("gcm%d %s %s key setup", ks_bits2[ks], f->name, route_name[route]);
                        fill_keydata(f, ks, route, key, kd, &r);
                        for (int dir = 0; dir < 2; dir++) {
                                /* dir 0: encrypt pt ; dir 1: decrypt the expected ciphertext */
                                const uint8_t *src_data = dir == 0 ? ptc : exp, *want_data = dir == 0 ? exp : ptc;
                                uint8_t *in, *o;
                                if (inplace) { in = pt; memcpy(in, src_data, len); o = in; }
                                else { in = pt; memcpy(in, src_data, len); o = dir == 0 ? out : back; memset(o, 0xA5, len); }
                                uint8_t *tg = dir == 0 ? tag : tag2;
                                memset(tg, 0x5A, 16);
                                int rc = 0;
                                char part[200] = "";
                                LABEL("gcm%d %s %s %s%s%s len=%u aad=%u tag=%u", ks_bits2[ks], f->name, route_name[route], dir ? "dec" : "enc", nt ? "_nt" : "", stream ? " stream" : "", len, aadlen, taglen);
                                if (!stream) {
                                        if (route == R_FAM) f->s.one[ks][dir][nt](kd, ctx, o, in, len, iv, aad, aadlen, tg, taglen);
                                        else if (route == R_LEGACY) gcm_legacy.s.one[ks][dir][nt](kd, ctx, o, in, len, iv, aad, aadlen, tg, taglen);
                                        else rc = gcm_isal.one[ks][dir][nt](kd, ctx, o, in, len, iv, aad, aadlen, tg, taglen);
                                } else {
                                        if (route == R_FAM) f->s.init[ks](kd, ctx, iv, aad, aadlen);
                                        else if (route == R_LEGACY) gcm_legacy.s.init[ks](kd, ctx, iv, aad, aadlen);
                                        else rc |= gcm_isal.init[ks](kd, ctx, iv, aad, aadlen);
                                        rng_t pr; rng_seed(&pr, mix64(c, 0x9a77 + (uint64_t) dir));     /* partition differs for enc and dec */
                                        uint32_t off = 0; size_t po = 0; int pieces = 0;
                                        int style = (int) rng_below(&pr, 5);
                                        int maxp = (!nt && rng_below(&pr, 20) == 0) ? 3000 : 60;   /* now and then thousands of tiny updates */
                                        if (maxp > 60) style = 0;
                                        while (1) {
                                                uint32_t rem = len - off, carried = off & 15, need = 16 - carried, k;
                                                if (nt) { k = 64 * rng_below(&pr, 1 + rem / 64 + 1); if (k > rem || rng_below(&pr, 4) == 0) k = rem; if (k < rem && (k & 63)) k &= ~63u; }
                                                else switch (style == 4 ? (int) rng_below(&pr, 4) : style) {
                                                case 0: k = rng_below(&pr, 6) == 0 ? 0 : 1 + rng_below(&pr, 3); break;         /* many tiny updates */
                                                case 1: { uint32_t cls = rng_below(&pr, 4); k = cls == 0 ? (need > 1 ? rng_below(&pr, need) : 0) : cls == 1 ? need : cls == 2 ? need + 1 + rng_below(&pr, 40) : need + 128 * (1 + rng_below(&pr, 8)) + rng_below(&pr, 16); break; }
                                                case 2: k = rng_below(&pr, rem + 1); break;
                                                default: k = 16 * rng_below(&pr, 70) + rng_below(&pr, 2) * rng_below(&pr, 16); break;
                                                }
                                                if (k > rem) k = rem;
                                                if (pieces > maxp) k = rem;
                                                /* coverage cell: carried residue x piece class */
                                                uint32_t cls = k == 0 ? 0 : (carried && k < need) ? 1 : (carried && k == need) ? 2 : k < 128 ? 3 : k < 768 ? 4 : 5;
                                                feat(mix64(0x57ea, mix64((uint64_t) (f - gcm_fams), mix64((uint64_t) carried, (uint64_t) cls * 8 + (uint64_t) (dir * 4 + ks * 2 + nt)))));
                                                if (route == R_FAM) f->s.upd[ks][dir][nt](kd, ctx, o + off, in + off, k);
                                                else if (route == R_LEGACY) gcm_legacy.s.upd[ks][dir][nt](kd, ctx, o + off, in + off, k);
                                                else rc |= gcm_isal.upd[ks][dir][nt](kd, ctx, o + off, in + off, k);
                                                if (po + 8 < sizeof part) po += (size_t) snprintf(part + po, sizeof part - po, "%u,", k);
                                                off += k; pieces++;
                                                out_count("gcm_update_calls", 1);
                                                if (off == len && (pieces > maxp || rng_below(&pr, 3))) break;
                                        }
                                        if (route == R_FAM) f->s.fin[ks][dir](kd, ctx, tg, taglen);
                                        else if (route == R_LEGACY) gcm_legacy.s.fin[ks][dir](kd, ctx, tg, taglen);
                                        else rc |= gcm_isal.fin[ks][dir](kd, ctx, tg, taglen);
                                }
                                cur_label[0] = 0;
                                out_count("gcm_calls", 1);
                                char key_[160];
                                if (rc) { snprintf(key_, sizeof key_, "gcm-valid-call-failed %s %s", f->name, route_name[route]); out_viol(g_prop, key_, rbuf, "valid call returned %d", rc); }
                                if (memcmp(o, want_data, len)) {
                                        uint32_t d = 0; while (o[d] == want_data[d]) d++;
                                        snprintf(key_, sizeof key_, "gcm%s-data-mismatch %d %s %s%s %s", stream ? "stream" : "", ks_bits2[ks], f->name, dir ? "dec" : "enc", nt ? "_nt" : "", route_name[route]);
                                        out_viol(g_prop, key_, rbuf, "len=%u aad=%u tag=%u inplace=%d: output differs from the reference at byte %u (pieces %s)", len, aadlen, taglen, inplace, d, part);
                                }
                                if (memcmp(tg, etag, taglen)) {
                                        char g[33], e[33]; hex(g, tg, taglen); hex(e, etag, taglen);
                                        snprintf(key_, sizeof key_, "gcm%s-tag-mismatch %d %s %s%s %s", stream ? "stream" : "", ks_bits2[ks], f->name, dir ? "dec" : "enc", nt ? "_nt" : "", route_name[route]);
                                        out_viol(g_prop, key_, rbuf, "len=%u aad=%u tag=%u inplace=%d: tag %s expected %s (pieces %s)", len, aadlen, taglen, inplace, g, e, part);
                                }
                                { static int ns; if (ns < 40) { ns++; char th[33]; hex(th, tg, taglen); clog_on = 1;
                                  clog_title("AES-GCM cases: each (family, route, direction, nt, in-place) combination of a case processes the same key/IV/AAD/message; output and tag are compared with the SP 800-38D reference (OpenSSL above 4 KiB)");
                                  clog_event("gcm%d %s %s %s%s%s len=%u aad=%u taglen=%u inplace=%d pieces[%s]: produced tag %s, data %s, tag %s", ks_bits2[ks], f->name, route_name[route], dir ? "dec" : "enc", nt ? "_nt" : "", stream ? " stream" : "",
                                             len, aadlen, taglen, inplace, part, th, memcmp(o, want_data, len) ? "DIFFERS" : "equal to the oracle", memcmp(tg, etag, taglen) ? "DIFFERS" : "equal to the oracle");
                                  clog_on = 0; } }
                                feat(mix64(0x6c3, mix64((uint64_t) (f - gcm_fams) * 64 + (uint64_t) (ks * 32 + dir * 16 + nt * 8 + inplace * 4 + route), mix64(len > 1100 ? 1101 + (len >> 10) : len, mix64(aadlen > 80 ? 81 : aadlen, taglen)))));
                        }
                }
        }
}

static void run_gcm(int stream, int thorough)
{
        for (int fi = 0; fi < NGCMFAM; fi++) {
                const gcmfam_t *f = &gcm_fams[fi];
                if (!fam_selected(f->name)) continue;
                force_vcpu(f->vcpu);
                for (uint64_t c = g_from; c < g_from + g_count; c++) { REPLAY(stream ? "gcmstream" : "gcm", f->name, c); gcm_case(f, c, stream, thorough); }
                if (want_route[R_ISAL] || want_route[R_LEGACY]) {
                        for (int ks = 0; ks < 2; ks++) {
                                verify_binding("gcm precomp", (void *) gcm_entries.precomp[ks], (void *) f->s.precomp[ks], f->name);
                                verify_binding("gcm init", (void *) gcm_entries.init[ks], (void *) f->s.init[ks], f->name);
                                for (int d = 0; d < 2; d++) {
                                        verify_binding("gcm finalize", (void *) gcm_entries.fin[ks][d], (void *) f->s.fin[ks][d], f->name);
                                        for (int nt = 0; nt < 2; nt++) {
                                                verify_binding("gcm one-shot", (void *) gcm_entries.one[ks][d][nt], (void *) f->s.one[ks][d][nt], f->name);
                                                verify_binding("gcm update", (void *) gcm_entries.upd[ks][d][nt], (void *) f->s.upd[ks][d][nt], f->name);
                                        }
                                }
                        }
                }
                char n[64]; snprintf(n, sizeof n, "cases_%s", f->name); out_count(n, g_count);
        }
}

/* huge one-shot messages: the bit length no longer fits 32 bits (>= 512 MiB) / the byte length no longer fits 32 bits (>= 4 GiB) */
static void run_gcm_huge(int thorough)
{
        static const uint64_t sizes_q[] = { (1ull << 29) + 17 }, sizes_t[] = { (1ull << 29) + 17, (1ull << 32) + 33, (1ull << 31) + 5 };
        const uint64_t *sizes = thorough ? sizes_t : sizes_q; int ns = thorough ? 3 : 1;
        for (int si = 0; si < ns; si++) {
                uint64_t len = sizes[si];
                uint8_t *pt = aligned_alloc(4096, (len + 4095) & ~4095ull), *buf = aligned_alloc(4096, (len + 4095) & ~4095ull), *exp = aligned_alloc(4096, (len + 4095) & ~4095ull);
                if (!pt || !buf || !exp) out_err("cannot allocate 3 x %llu bytes", (unsigned long long) len);
                rng_t r; rng_seed(&r, g_seed ^ 0x4095e ^ len);
                rng_fill(&r, pt, 1 << 20);
                for (uint64_t o = 1 << 20; o < len; o += 1 << 20) { uint64_t k = len - o < (1 << 20) ? len - o : (1 << 20); memcpy(pt + o, pt, k); pt[o] ^= (uint8_t) (o >> 20); pt[o + k / 2] ^= (uint8_t) (o >> 28); }
                uint8_t key[32], iv[12], aad[20], etag[16], tag[16];
                rng_fill(&r, key, 32); rng_fill(&r, iv, 12); rng_fill(&r, aad, 20);
                for (int ks = 0; ks < 2; ks++) {
                        if (ossl_gcm(ks_bits2[ks], 1, key, iv, aad, 20, pt, exp, len, etag)) out_err("OpenSSL GCM oracle failed");
                        for (int fi = 0; fi < NGCMFAM; fi++) {
                                const gcmfam_t *f = &gcm_fams[fi];
                                if (!fam_selected(f->name)) continue;
                                snprintf(rbuf, sizeof rbuf, "{\"engine\":\"aesdiff\",\"what\":\"gcmhuge\",\"fam\":\"%s\",\"len\":%llu}", f->name, (unsigned long long) len);
                                snprintf(cur_replay, sizeof cur_replay, "%s", rbuf);
                                struct isal_gcm_key_data kd __attribute__((aligned(64))); struct isal_gcm_context_data ctx;
                                ref_aes_t a; ref_aes_expand(&a, key, ks_bits2[ks]);
                                memset(&kd, 0, sizeof kd); memcpy(&kd, a.enc, (size_t) 16 * (a.nr + 1));
                                f->s.precomp[ks](&kd);
                                for (int dir = 0; dir < 2; dir++) {
                                        int stream = dir;       /* encrypt one-shot (in place), decrypt streamed in two pieces */
                                        if (dir == 0) memcpy(buf, pt, len);
                                        LABEL("gcm%d %s huge %s len=%llu", ks_bits2[ks], f->name, dir ? "dec" : "enc", (unsigned long long) len);
                                        if (!stream) f->s.one[ks][dir][0](&kd, &ctx, buf, buf, len, iv, aad, 20, tag, 16);
                                        else { uint64_t cut = (len / 2 + 5) & ~15ull; f->s.init[ks](&kd, &ctx, iv, aad, 20); f->s.upd[ks][dir][0](&kd, &ctx, buf, buf, cut); f->s.upd[ks][dir][0](&kd, &ctx, buf + cut, buf + cut, len - cut); f->s.fin[ks][dir](&kd, &ctx, tag, 16); }
                                        cur_label[0] = 0;
                                        out_count("gcm_calls", 1); out_count("gcm_huge_calls", 1);
                                        const uint8_t *want = dir ? pt : exp;
                                        char key_[160];
                                        if (memcmp(buf, want, len)) { uint64_t d = 0; while (buf[d] == want[d]) d++; snprintf(key_, sizeof key_, "gcm-huge-data-mismatch %d %s %s", ks_bits2[ks], f->name, dir ? "dec" : "enc"); out_viol(g_prop, key_, rbuf, "len=%llu: output differs from OpenSSL at byte %llu", (unsigned long long) len, (unsigned long long) d); }
                                        if (memcmp(tag, etag, 16)) { char g[33], e[33]; hex(g, tag, 16); hex(e, etag, 16); snprintf(key_, sizeof key_, "gcm-huge-tag-mismatch %d %s %s", ks_bits2[ks], f->name, dir ? "dec" : "enc"); out_viol(g_prop, key_, rbuf, "len=%llu: tag %s expected %s", (unsigned long long) len, g, e); }
                                        feat(mix64(0x4095e, mix64((uint64_t) fi * 4 + (uint64_t) ks * 2 + (uint64_t) dir, len)));
                                }
                                char n[64]; snprintf(n, sizeof n, "cases_%s", f->name); out_count(n, 1);
                        }
                }
                free(pt); free(buf); free(exp);
        }
}

/* ---- single calls whose byte length does not fit 32 bits: periodic input (memfd mirror), real output, OpenSSL oracle compared through SHA-256 ---- */
static uint8_t *alias_in(uint64_t need)
{
        const uint64_t PER = 64ull << 20; int nc = (int) (need / PER) + 2;
        int fd = memfd_create("verif-aes", 0);
        if (fd < 0 || ftruncate(fd, (off_t) PER)) out_err("memfd failed");
        uint8_t *st = mmap(NULL, (uint64_t) nc * PER, PROT_NONE, MAP_PRIVATE | MAP_ANONYMOUS | MAP_NORESERVE, -1, 0);
        if (st == MAP_FAILED) out_err("cannot reserve address space");
        for (int i = 0; i < nc; i++) if (mmap(st + (uint64_t) i * PER, PER, i == 0 ? PROT_READ | PROT_WRITE : PROT_READ, MAP_SHARED | MAP_FIXED, fd, 0) == MAP_FAILED) out_err("mirror mmap failed");
        rng_t r; rng_seed(&r, g_seed ^ 0xa11a5); rng_fill(&r, st, PER);
        return st;
}
static void sha256_of(const uint8_t *p, uint64_t n, uint8_t out[32])
{
        EVP_MD_CTX *c = EVP_MD_CTX_new(); unsigned l;
        EVP_DigestInit_ex(c, EVP_sha256(), NULL);
        for (uint64_t o = 0; o < n; o += 1u << 30) EVP_DigestUpdate(c, p + o, n - o > (1u << 30) ? (1u << 30) : n - o);
        EVP_DigestFinal_ex(c, out, &l); EVP_MD_CTX_free(c);
}
/* OpenSSL result of the mode over [in, in+len) hashed chunk by chunk (no second 4 GiB buffer) */
static void ossl_stream_hash(const EVP_CIPHER *ci, int enc, const uint8_t *key, const uint8_t *iv, int gcm, const uint8_t *aad, int aadl, const uint8_t *in, uint64_t len, uint8_t hash[32], uint8_t tag[16])
{
        EVP_CIPHER_CTX *c = EVP_CIPHER_CTX_new(); EVP_MD_CTX *m = EVP_MD_CTX_new(); int n; unsigned l;
        uint8_t *tmp = malloc((64u << 20) + 64);
        EVP_DigestInit_ex(m, EVP_sha256(), NULL);
        EVP_CipherInit_ex(c, ci, NULL, NULL, NULL, enc);
        if (gcm) EVP_CIPHER_CTX_ctrl(c, EVP_CTRL_GCM_SET_IVLEN, 12, NULL);
        EVP_CipherInit_ex(c, NULL, NULL, key, iv, enc);
        EVP_CIPHER_CTX_set_padding(c, 0);
        if (gcm && aadl) EVP_CipherUpdate(c, NULL, &n, aad, aadl);
        for (uint64_t o = 0; o < len; o += 64u << 20) { int k = (int) (len - o > (64u << 20) ? (64u << 20) : len - o); EVP_CipherUpdate(c, tmp, &n, in + o, k); EVP_DigestUpdate(m, tmp, (size_t) n); }
        EVP_CipherFinal_ex(c, tmp, &n);
        if (gcm) EVP_CIPHER_CTX_ctrl(c, EVP_CTRL_GCM_GET_TAG, 16, tag);
        EVP_DigestFinal_ex(m, hash, &l);
        free(tmp); EVP_CIPHER_CTX_free(c); EVP_MD_CTX_free(m);
}
/* ---- AAD whose bit length (>= 2^29 bytes) or byte length (>= 2^32 bytes) does not fit 32 bits; aad_len is a uint64_t in the API ---- */
static void run_gcm_aad_huge(int thorough)
{
        static const uint64_t aadlens[] = { (1ull << 29) + 33, (1ull << 32) + 4113, 1ull << 32 };       /* the last: low 32 bits all zero */
        uint8_t *aad = alias_in(aadlens[1] + 4096);
        uint8_t key[32], iv[16] __attribute__((aligned(16))), msg[64], ect[64], etag[16], ct[64], tag[16];
        rng_t r; rng_seed(&r, g_seed ^ 0xaad6e); rng_fill(&r, key, 32); rng_fill(&r, iv, 16); rng_fill(&r, msg, 64);
        char key_[160];
        for (int li = 0; li < 3; li++) for (int ks = 0; ks < 2; ks++) {
                uint64_t al = aadlens[li]; uint32_t len = 37;
                int computed = 0;
                for (int fi = 0; fi < NGCMFAM; fi++) {
                        const gcmfam_t *f = &gcm_fams[fi];
                        if (!fam_selected(f->name)) continue;
                        /* quick: 2^29+33 on every family (128-bit key), 2^32+4113 on vaes_avx512 only; thorough: everything */
                        if (!thorough && (ks == 1 || (li == 1 && strcmp(f->name, "vaes_avx512")))) continue;
                        if (!computed) {
                                EVP_CIPHER_CTX *c = EVP_CIPHER_CTX_new(); int n;
                                EVP_CipherInit_ex(c, ks ? EVP_aes_256_gcm() : EVP_aes_128_gcm(), NULL, NULL, NULL, 1);
                                EVP_CIPHER_CTX_ctrl(c, EVP_CTRL_GCM_SET_IVLEN, 12, NULL);
                                EVP_CipherInit_ex(c, NULL, NULL, key, iv, 1);
                                for (uint64_t o = 0; o < al; o += 1u << 30) if (!EVP_CipherUpdate(c, NULL, &n, aad + o, (int) (al - o > (1u << 30) ? (1u << 30) : al - o))) out_err("OpenSSL refused the AAD");
                                EVP_CipherUpdate(c, ect, &n, msg, (int) len); EVP_CipherFinal_ex(c, ect + n, &n);
                                EVP_CIPHER_CTX_ctrl(c, EVP_CTRL_GCM_GET_TAG, 16, etag); EVP_CIPHER_CTX_free(c);
                                computed = 1;
                        }
                        snprintf(rbuf, sizeof rbuf, "{\"engine\":\"aesdiff\",\"what\":\"gcmaadhuge\",\"fam\":\"%s\",\"ks\":%d,\"aad_len\":%llu}", f->name, ks_bits2[ks], (unsigned long long) al); snprintf(cur_replay, sizeof cur_replay, "%s", rbuf);
                        struct isal_gcm_key_data kd __attribute__((aligned(64))); struct isal_gcm_context_data ctx;
                        ref_aes_t a; ref_aes_expand(&a, key, ks_bits2[ks]);
                        memset(&kd, 0, sizeof kd); memcpy(&kd, a.enc, (size_t) 16 * (a.nr + 1)); f->s.precomp[ks](&kd);
                        for (int shape = 0; shape < 2; shape++) {
                                memset(ct, 0xA5, sizeof ct); memset(tag, 0x5A, 16);
                                LABEL("gcm%d %s %s aad_len=%llu len=%u", ks_bits2[ks], f->name, shape ? "init/update/finalize" : "one-shot", (unsigned long long) al, len);
                                if (shape == 0) f->s.one[ks][0][0](&kd, &ctx, ct, msg, len, iv, aad, al, tag, 16);
                                else { f->s.init[ks](&kd, &ctx, iv, aad, al); f->s.upd[ks][0][0](&kd, &ctx, ct, msg, len); f->s.fin[ks][0](&kd, &ctx, tag, 16); }
                                cur_label[0] = 0;
                                out_count("gcm_calls", 1); out_count("gcm_huge_aad_calls", 1);
                                if (memcmp(ct, ect, len) || memcmp(tag, etag, 16)) {
                                        char g[33], e[33]; hex(g, tag, 16); hex(e, etag, 16);
                                        snprintf(key_, sizeof key_, "gcm-huge-aad-mismatch %d %s %s", ks_bits2[ks], f->name, al >> 32 ? "aad>=2^32" : "aad>=2^29");
                                        out_viol(g_prop, key_, rbuf, "%s with aad_len=%llu, len=%u: %s differs from OpenSSL (tag %s expected %s)", shape ? "init/update/finalize" : "one-shot", (unsigned long long) al, len, memcmp(ct, ect, len) ? "ciphertext" : "tag", g, e);
                                }
                        }
                        feat(mix64(0xaad6e, (uint64_t) fi * 8 + (uint64_t) ks * 4 + (uint64_t) li));
                        char n[64]; snprintf(n, sizeof n, "cases_%s", f->name); out_count(n, 1);
                }
        }
}

static void run_huge2(const char *what, int thorough)
{
        uint64_t len = !strcmp(what, "cbchuge") ? (1ull << 32) + 4096 + 48 : (1ull << 32) + 289;     /* CBC: beyond 2^32 by more than one pass of every unrolled loop, and not a multiple of 8 or 16 blocks */
        uint8_t *in = alias_in(len + 4096), *out = aligned_alloc(4096, (len + 8191) & ~4095ull);
        if (!out) out_err("cannot allocate %llu bytes", (unsigned long long) len);
        uint8_t key[32], iv[16] __attribute__((aligned(16))), aad[20], eh[32], gh[32], etag[16], tag[16];
        rng_t r; rng_seed(&r, g_seed ^ 0x4095f); rng_fill(&r, key, 32); rng_fill(&r, iv, 16); rng_fill(&r, aad, 20);
        char key_[160];
        if (!strcmp(what, "gcmhuge2")) {
                for (int ks = 0; ks < 2; ks++) {
                        ossl_stream_hash(ks ? EVP_aes_256_gcm() : EVP_aes_128_gcm(), 1, key, iv, 1, aad, 20, in, len, eh, etag);
                        for (int fi = 0; fi < NGCMFAM; fi++) {
                                const gcmfam_t *f = &gcm_fams[fi];
                                if (!fam_selected(f->name)) continue;
                                snprintf(rbuf, sizeof rbuf, "{\"engine\":\"aesdiff\",\"what\":\"gcmhuge2\",\"fam\":\"%s\",\"ks\":%d}", f->name, ks_bits2[ks]); snprintf(cur_replay, sizeof cur_replay, "%s", rbuf);
                                struct isal_gcm_key_data kd __attribute__((aligned(64))); struct isal_gcm_context_data ctx;
                                ref_aes_t a; ref_aes_expand(&a, key, ks_bits2[ks]);
                                memset(&kd, 0, sizeof kd); memcpy(&kd, a.enc, (size_t) 16 * (a.nr + 1)); f->s.precomp[ks](&kd);
                                /* a pending partial block, then one update of exactly 2^32 bytes, then the rest */
                                LABEL("gcm%d %s stream updates 1 + 2^32 + 288", ks_bits2[ks], f->name);
                                f->s.init[ks](&kd, &ctx, iv, aad, 20);
                                f->s.upd[ks][0][0](&kd, &ctx, out, in, 1); f->s.upd[ks][0][0](&kd, &ctx, out + 1, in + 1, 1ull << 32); f->s.upd[ks][0][0](&kd, &ctx, out + 1 + (1ull << 32), in + 1 + (1ull << 32), len - 1 - (1ull << 32));
                                f->s.fin[ks][0](&kd, &ctx, tag, 16);
                                cur_label[0] = 0;
                                out_count("gcm_calls", 1); out_count("gcm_update_calls", 3); out_count("gcm_huge_calls", 1);
                                sha256_of(out, len, gh);
                                if (memcmp(gh, eh, 32) || memcmp(tag, etag, 16)) { snprintf(key_, sizeof key_, "gcm-huge-update-mismatch %d %s", ks_bits2[ks], f->name); out_viol(g_prop, key_, rbuf, "updates of 1, 2^32 and 288 bytes: %s differs from OpenSSL", memcmp(gh, eh, 32) ? "ciphertext" : "tag"); }
                                else {
                                        /* the same message in one call (more than 2^32 bytes, a 16..31-block tail after the last full pass of the widest loop) */
                                        memset(out + len - 512, 0xEE, 512); memset(tag, 0, 16);
                                        LABEL("gcm%d %s one-shot len=2^32+289", ks_bits2[ks], f->name);
                                        f->s.one[ks][0][0](&kd, &ctx, out, in, len, iv, aad, 20, tag, 16);
                                        cur_label[0] = 0;
                                        out_count("gcm_calls", 1); out_count("gcm_huge_calls", 1);
                                        sha256_of(out, len, gh);
                                        if (memcmp(gh, eh, 32) || memcmp(tag, etag, 16)) { snprintf(key_, sizeof key_, "gcm-huge-oneshot-mismatch %d %s", ks_bits2[ks], f->name); out_viol(g_prop, key_, rbuf, "one call of 2^32+289 bytes: %s differs from OpenSSL", memcmp(gh, eh, 32) ? "ciphertext" : "tag"); }
                                        else {
                                        /* the ciphertext just verified, decrypted in place: a carried partial block (5 bytes), one update of 3 GiB + 11 bytes, the rest */
                                        uint64_t big = (3ull << 30) + 11;
                                        LABEL("gcm%d %s stream decrypt updates 5 + (3 GiB + 11) + rest", ks_bits2[ks], f->name);
                                        f->s.init[ks](&kd, &ctx, iv, aad, 20);
                                        f->s.upd[ks][1][0](&kd, &ctx, out, out, 5); f->s.upd[ks][1][0](&kd, &ctx, out + 5, out + 5, big); f->s.upd[ks][1][0](&kd, &ctx, out + 5 + big, out + 5 + big, len - 5 - big);
                                        memset(tag, 0, 16);
                                        f->s.fin[ks][1](&kd, &ctx, tag, 16);
                                        cur_label[0] = 0;
                                        out_count("gcm_calls", 1); out_count("gcm_update_calls", 3); out_count("gcm_huge_calls", 1);
                                        uint64_t d = 0; for (uint64_t o = 0; o < len && d == 0; o += 1u << 26) { uint64_t k = len - o > (1u << 26) ? (1u << 26) : len - o; if (memcmp(out + o, in + o, k)) { d = o; while (out[d] == in[d]) d++; d++; } }
                                        if (d || memcmp(tag, etag, 16)) { snprintf(key_, sizeof key_, "gcm-huge-update-dec-mismatch %d %s", ks_bits2[ks], f->name); out_viol(g_prop, key_, rbuf, "decrypt updates of 5, 3 GiB + 11 and the rest: %s differs (first wrong byte %llu)", d ? "plaintext" : "tag", (unsigned long long) (d ? d - 1 : 0)); }
                                        }
                                }
                                feat(mix64(0x4095f, (uint64_t) fi * 2 + (uint64_t) ks));
                                char n[64]; snprintf(n, sizeof n, "cases_%s", f->name); out_count(n, 1);
                        }
                        if (!thorough) break;
                }
        } else {
                static const struct { const char *vcpu; int e, d; } combos[3] = { { "sse", 0, 0 }, { "avx", 1, 1 }, { "avx512_g2", 1, 2 } };
                for (int ks = 0; ks < 3; ks++) {
                        ref_aes_t a; ref_aes_expand(&a, key, ks_bits3[ks]);
                        static uint8_t ke[240] __attribute__((aligned(16))), kdv[240] __attribute__((aligned(16)));
                        memcpy(ke, a.enc, 240); memcpy(kdv, a.dec, 240);
                        const EVP_CIPHER *ci = ks == 0 ? EVP_aes_128_cbc() : ks == 1 ? EVP_aes_192_cbc() : EVP_aes_256_cbc();
                        for (int dir = thorough ? 0 : 1; dir < 2; dir++) {
                                ossl_stream_hash(ci, !dir, key, iv, 0, NULL, 0, in, len, eh, etag);
                                for (int ci_ = 0; ci_ < 3; ci_++) {
                                        if (!fam_selected(combos[ci_].vcpu)) continue;
                                        const char *fname = dir ? cbc_dec_fams[combos[ci_].d].name : cbc_enc_fams[combos[ci_].e].name;
                                        snprintf(rbuf, sizeof rbuf, "{\"engine\":\"aesdiff\",\"what\":\"cbchuge\",\"fam\":\"%s\",\"ks\":%d,\"dir\":%d}", fname, ks_bits3[ks], dir); snprintf(cur_replay, sizeof cur_replay, "%s", rbuf);
                                        LABEL("cbc%d %s %s len=2^32+48", ks_bits3[ks], dir ? "dec" : "enc", fname);
                                        memset(out + len - 64, 0xA5, 64);
                                        if (!dir) cbc_enc_fams[combos[ci_].e].f[ks](in, iv, ke, out, len); else cbc_dec_fams[combos[ci_].d].f[ks](in, iv, kdv, out, len);
                                        cur_label[0] = 0;
                                        out_count("cbc_calls", 1); out_count("cbc_huge_calls", 1);
                                        sha256_of(out, len, gh);
                                        if (memcmp(gh, eh, 32)) { snprintf(key_, sizeof key_, "cbc-huge-mismatch %d %s %s", ks_bits3[ks], dir ? "dec" : "enc", fname); out_viol(g_prop, key_, rbuf, "len = 2^32+48: output differs from OpenSSL"); }
                                        feat(mix64(0x4096f, (uint64_t) ci_ * 8 + (uint64_t) ks * 2 + (uint64_t) dir));
                                        char n[64]; snprintf(n, sizeof n, "cases_%s", combos[ci_].vcpu); out_count(n, 1);
                                }
                        }
                        if (!thorough) break;
                }
                out_count("keyexp_calls", 1);
        }
        free(out);
}

/* ------------------------------------------------------------------ XTS */
static void xts_case(const xtsfam_t *f, uint64_t c, int thorough)
{
        rng_t r; rng_seed(&r, mix64(g_seed ^ 0x875, c));
        uint32_t len;
        if (c < 16) len = (uint32_t) c;                                 /* no-op clause */
        else if (c <= 1100) len = (uint32_t) c;
        else if (c == 1101) len = 1u << 24;                             /* documented maximum data unit */
        else if (c == 1102) len = (1u << 24) - 1;
        else switch (rng_below(&r, 8)) {
                case 0: len = 16 + rng_below(&r, 65536); break;
                case 1: len = 128 * (1 + rng_below(&r, 64)) + rng_below(&r, 33) - 16; break;
                case 2: len = 256 * (1 + rng_below(&r, 32)) + rng_below(&r, 33) - 16; break;
                case 3: len = thorough && rng_below(&r, 30) == 0 ? (1u << 24) - rng_below(&r, 2) : 16 + rng_below(&r, 5000); break;
                default: len = 16 + rng_below(&r, 3000); break;
                }
        arena_reset(&r, len);
        uint8_t key1[32], key2[32], tw0[16];
        rng_fill(&r, key1, 32); rng_fill(&r, key2, 32); rng_fill(&r, tw0, 16);
        if (c % 16 == 7) { memcpy(key2, key1, 32); out_count("xts_cases_with_equal_keys", 1); }    /* allowed outside FIPS mode: IEEE 1619 does not forbid it */
        int inplace = (int) rng_below(&r, 2);
        uint8_t *in = A(len, 64, rng_below(&r, 64)), *out = inplace ? in : A(len, 64, rng_below(&r, 64));
        uint8_t *src = A(len, 64, 0), *exp = A(len, 64, 0);
        uint8_t *k1 = A(32, 16, rng_below(&r, 16)), *k2 = A(32, 16, rng_below(&r, 16)), *tw = A(16, 16, rng_below(&r, 16));
        uint8_t *xk1 = A(16 * 15, 16, rng_below(&r, 16)), *xk2 = A(16 * 15, 16, rng_below(&r, 16));
        rng_fill(&r, src, len);
        memcpy(k1, key1, 32); memcpy(k2, key2, 32); memcpy(tw, tw0, 16);
        for (int ks = 0; ks < 2; ks++) {
                ref_aes_t a1, a2;
                ref_aes_expand(&a1, key1, ks_bits2[ks]); ref_aes_expand(&a2, key2, ks_bits2[ks]);
                for (int dir = 0; dir < 2; dir++) {
                        if (len >= 16) {
                                if (len <= 8192 || !memcmp(key1, key2, 32)) ref_xts(&a1, &a2, !dir, tw0, src, exp, len);      /* OpenSSL refuses identical XTS keys */
                                else if (ossl_xts(ks_bits2[ks], !dir, key1, key2, tw0, src, exp, len)) out_err("OpenSSL XTS oracle failed");
                        }
                        for (int xp = 0; xp < 2; xp++) {
                                /* expanded form: tweak key = encryption schedule; data key = enc schedule (enc) / dec schedule (dec) */
                                const uint8_t *pk1 = k1, *pk2 = k2;
                                if (xp) {
                                        memcpy(xk2, a2.enc, (size_t) 16 * (a2.nr + 1));
                                        memcpy(xk1, dir ? a1.dec : a1.enc, (size_t) 16 * (a1.nr + 1));
                                        pk1 = xk1; pk2 = xk2;
                                }
                                for (int route = 0; route < 3; route++) {
                                        if (!want_route[route]) continue;
                                        memcpy(in, src, len);
                                        if (!inplace) memset(out, 0xA5, len);
                                        int rc = 0;
                                        LABEL("xts%d %s %s %s%s len=%u", ks_bits2[ks], f->name, route_name[route], dir ? "dec" : "enc", xp ? "_expanded_key" : "", len);
                                        const uint8_t *pin = in; uint8_t *pout = out;
                                        int guard_none = len < 16 && route != R_ISAL;
                                        if (guard_none) { pin = gnone_ptr(); pout = (uint8_t *) gnone_ptr() + 4096; }     /* must not be touched at all */
                                        int faulted = 0;
                                        if (route == R_FAM) faulted = GUARDED(f->f[ks][dir][xp](pk2, pk1, tw, len, pin, pout));
                                        else if (route == R_LEGACY) faulted = GUARDED(xts_legacy[ks][dir][xp](pk2, pk1, tw, len, pin, pout));
                                        else rc = xts_isal[ks][dir][xp](pk2, pk1, tw, len, pin, pout);
                                        cur_label[0] = 0;
                                        out_count("xts_calls", 1);
                                        char key_[160];
                                        if (len < 16) {
                                                out_count("xts_short_calls", 1);
                                                if (faulted) { snprintf(key_, sizeof key_, "xts-short-touched %d %s %s%s %s", ks_bits2[ks], f->name, dir ? "dec" : "enc", xp ? "_x" : "", route_name[route]); out_viol(g_prop, key_, rbuf, "len=%u (<16): a buffer was %s at %p", len, fault_last.is_write ? "written" : "read", fault_last.addr); }
                                                if (route == R_ISAL) {
                                                        if (rc != ISAL_CRYPTO_ERR_CIPH_LEN) { snprintf(key_, sizeof key_, "xts-short-rc %s", f->name); out_viol(g_prop, key_, rbuf, "isal xts len=%u returned %d, expected CIPH_LEN", len, rc); }
                                                        if (memcmp(in, src, len) || (!inplace && len && (out[0] != 0xA5 || out[len - 1] != 0xA5))) { snprintf(key_, sizeof key_, "xts-short-modified %s isal", f->name); out_viol(g_prop, key_, rbuf, "len=%u (<16): a buffer was modified", len); }
                                                }
                                                continue;
                                        }
                                        if (faulted) { snprintf(key_, sizeof key_, "xts-fault %s", f->name); out_viol(g_prop, key_, rbuf, "unexpected fault at %p", fault_last.addr); continue; }
                                        if (rc) { snprintf(key_, sizeof key_, "xts-valid-call-failed %s %s", f->name, route_name[route]); out_viol(g_prop, key_, rbuf, "valid call len=%u returned %d", len, rc); }
                                        if (memcmp(out, exp, len)) {
                                                uint32_t d = 0; while (out[d] == exp[d]) d++;
                                                snprintf(key_, sizeof key_, "xts-mismatch %d %s %s%s %s", ks_bits2[ks], f->name, dir ? "dec" : "enc", xp ? "_expanded_key" : "", route_name[route]);
                                                out_viol(g_prop, key_, rbuf, "len=%u inplace=%d: output differs from IEEE 1619 reference at byte %u", len, inplace, d);
                                        }
                                        { static int ns; if (ns < 40) { ns++; char oh[33]; hex(oh, out, 16); clog_on = 1;
                                          clog_title("AES-XTS cases: every (family, route, direction, raw/expanded key, in-place) combination of a case processes the same keys/tweak/data; output compared with the IEEE 1619 reference (ciphertext stealing for len mod 16 != 0)");
                                          clog_event("xts%d %s %s %s%s len=%u inplace=%d: first output block %s, %u bytes %s", ks_bits2[ks], f->name, route_name[route], dir ? "dec" : "enc", xp ? " expanded-key" : "", len, inplace, oh, len, memcmp(out, exp, len) ? "DIFFER" : "equal to the reference");
                                          clog_on = 0; } }
                                        feat(mix64(0x875, mix64((uint64_t) (f - xts_fams) * 64 + (uint64_t) (ks * 32 + dir * 16 + xp * 8 + inplace * 4 + route), len > 1100 ? 1101 + (len >> 10) + (len & 15) * 4096 : len)));
                                }
                        }
                }
        }
}
static void run_xts(int thorough)
{
        for (int fi = 0; fi < NXTSFAM; fi++) {
                const xtsfam_t *f = &xts_fams[fi];
                if (!fam_selected(f->name)) continue;
                force_vcpu(f->vcpu);
                for (uint64_t c = g_from; c < g_from + g_count; c++) { REPLAY("xts", f->name, c); xts_case(f, c, thorough); }
                for (int ks = 0; ks < 2; ks++) for (int d = 0; d < 2; d++) for (int x = 0; x < 2; x++)
                        verify_binding("xts", (void *) xts_entries[ks][d][x], (void *) f->f[ks][d][x], f->name);
                char n[64]; snprintf(n, sizeof n, "cases_%s", f->name); out_count(n, g_count);
        }
}

/* ------------------------------------------------------------------ key expansion + CBC */
static void keyexp_cases(uint64_t c)
{
        rng_t r; rng_seed(&r, mix64(g_seed ^ 0x4e7, c));
        uint8_t key[32];
        rng_fill(&r, key, 32);
        if (c % 64 == 0) memset(key, (int) (c / 64), 32);
        arena_reset(&r, 0);
        uint8_t *k = A(32, 16, rng_below(&r, 16)), *e = A(240, 16, c % 3 == 0 ? 0 : rng_below(&r, 16)), *d = A(240, 16, c % 3 == 0 ? 0 : rng_below(&r, 16));  /* the key-expansion API states no alignment for the schedules */
        memcpy(k, key, 32);
        for (int ks = 0; ks < 3; ks++) {
                ref_aes_t a; ref_aes_expand(&a, key, ks_bits3[ks]);
                size_t n = (size_t) 16 * (a.nr + 1);
                for (int fi = 0; fi < 2; fi++) {
                        for (int route = 0; route < 3; route++) {
                                if (!want_route[route]) continue;
                                if (route != R_FAM && fi != 0) continue;        /* the API routes do not depend on fi */
                                memset(e, 0xA5, 240); memset(d, 0xA5, 240);
                                int rc = 0;
                                LABEL("keyexp%d %s %s", ks_bits3[ks], keyexp_fams[fi].name, route_name[route]);
                                if (route == R_FAM) keyexp_fams[fi].f[ks](k, e, d);
                                else if (route == R_LEGACY) keyexp_legacy[ks](k, e, d);
                                else rc = keyexp_isal[ks](k, e, d);
                                cur_label[0] = 0;
                                out_count("keyexp_calls", 1);
                                char key_[160];
                                if (rc) { snprintf(key_, sizeof key_, "keyexp-valid-call-failed %d", ks_bits3[ks]); out_viol(g_prop, key_, rbuf, "returned %d", rc); }
                                if (memcmp(e, a.enc, n)) { size_t o = 0; while (e[o] == ((uint8_t *) a.enc)[o]) o++; snprintf(key_, sizeof key_, "keyexp-enc-mismatch %d %s %s", ks_bits3[ks], keyexp_fams[fi].name, route_name[route]); out_viol(g_prop, key_, rbuf, "encryption schedule differs from FIPS-197 at byte %zu (round %zu)", o, o / 16); }
                                if (memcmp(d, a.dec, n)) { size_t o = 0; while (d[o] == ((uint8_t *) a.dec)[o]) o++; snprintf(key_, sizeof key_, "keyexp-dec-mismatch %d %s %s", ks_bits3[ks], keyexp_fams[fi].name, route_name[route]); out_viol(g_prop, key_, rbuf, "decryption schedule differs from the equivalent-inverse schedule at byte %zu (round %zu)", o, o / 16); }
                        }
                        if (ks == 0 && want_route[R_FAM]) {
                                memset(e, 0xA5, 240);
                                LABEL("keyexp128_enc %s", keyexp_fams[fi].name);
                                keyexp_fams[fi].enc128(k, e);
                                cur_label[0] = 0;
                                if (memcmp(e, a.enc, n)) { char key_[100]; snprintf(key_, sizeof key_, "keyexp-enc-only-mismatch %s", keyexp_fams[fi].name); out_viol(g_prop, key_, rbuf, "128_enc schedule differs from FIPS-197"); }
                                out_count("keyexp_calls", 1);
                        }
                }
                feat(mix64(0x4e7, mix64((uint64_t) ks, c)));
        }
}

static void cbc_case(int encfam, int decfam, uint64_t c, int thorough)
{
        rng_t r; rng_seed(&r, mix64(g_seed ^ 0xcbc, c));
        uint32_t nblk;
        if (c >= 1 && c <= 80) nblk = (uint32_t) c;
        else switch (rng_below(&r, 6)) {
                case 0: nblk = 1 + rng_below(&r, 4096); break;
                case 1: nblk = 8 * (1 + rng_below(&r, 40)) + rng_below(&r, 3) - 1; break;
                case 2: nblk = 16 * (1 + rng_below(&r, 40)) + rng_below(&r, 3) - 1; break;
                case 3: nblk = thorough && rng_below(&r, 20) == 0 ? 65536 + rng_below(&r, 9) : 1 + rng_below(&r, 300); break;
                default: nblk = 1 + rng_below(&r, 200); break;
                }
        if (nblk == 0) nblk = 1;
        uint32_t len = 16 * nblk;
        arena_reset(&r, len);
        uint8_t key[32], iv0[16];
        rng_fill(&r, key, 32); rng_fill(&r, iv0, 16);
        int inplace = (int) rng_below(&r, 2);
        uint8_t *in = A(len, 64, rng_below(&r, 64)), *out = inplace ? in : A(len, 64, rng_below(&r, 64));
        uint8_t *src = A(len, 64, 0), *exp = A(len, 64, 0), *iv = A(16, 16, 0), *ke = A(240, 16, 0), *kdv = A(240, 16, 0);
        rng_fill(&r, src, len);
        memcpy(iv, iv0, 16);
        for (int ks = 0; ks < 3; ks++) {
                ref_aes_t a; ref_aes_expand(&a, key, ks_bits3[ks]);
                memcpy(ke, a.enc, 240); memcpy(kdv, a.dec, 240);
                for (int dir = 0; dir < 2; dir++) {
                        if (len <= 8192) { if (!dir) ref_cbc_enc(&a, iv0, src, exp, len); else ref_cbc_dec(&a, iv0, src, exp, len); }
                        else if (ossl_cbc(ks_bits3[ks], !dir, key, iv0, src, exp, len)) out_err("OpenSSL CBC oracle failed");
                        const char *fname = dir ? cbc_dec_fams[decfam].name : cbc_enc_fams[encfam].name;
                        for (int route = 0; route < 3; route++) {
                                if (!want_route[route]) continue;
                                memcpy(in, src, len);
                                if (!inplace) memset(out, 0xA5, len);
                                int rc = 0;
                                LABEL("cbc%d %s %s %s len=%u", ks_bits3[ks], dir ? "dec" : "enc", fname, route_name[route], len);
                                if (route == R_FAM) { if (!dir) cbc_enc_fams[encfam].f[ks](in, iv, ke, out, len); else cbc_dec_fams[decfam].f[ks](in, iv, kdv, out, len); }
                                else if (route == R_LEGACY) { if (!dir) cbc_enc_legacy[ks](in, iv, ke, out, len); else cbc_dec_legacy[ks](in, iv, kdv, out, len); }
                                else rc = !dir ? cbc_enc_isal[ks](in, iv, ke, out, len) : cbc_dec_isal[ks](in, iv, kdv, out, len);
                                cur_label[0] = 0;
                                out_count("cbc_calls", 1);
                                char key_[160];
                                if (rc) { snprintf(key_, sizeof key_, "cbc-valid-call-failed %s", fname); out_viol(g_prop, key_, rbuf, "valid call len=%u returned %d", len, rc); }
                                if (memcmp(out, exp, len)) {
                                        uint32_t d = 0; while (out[d] == exp[d]) d++;
                                        snprintf(key_, sizeof key_, "cbc-mismatch %d %s %s %s", ks_bits3[ks], dir ? "dec" : "enc", fname, route_name[route]);
                                        out_viol(g_prop, key_, rbuf, "len=%u inplace=%d: output differs from SP 800-38A reference at byte %u (block %u)", len, inplace, d, d / 16);
                                }
                                if (memcmp(iv, iv0, 16)) { snprintf(key_, sizeof key_, "cbc-iv-modified %s", fname); out_viol(g_prop, key_, rbuf, "IV buffer modified"); memcpy(iv, iv0, 16); }
                                { static int ns; if (ns < 40) { ns++; char oh[33]; hex(oh, out, len >= 16 ? 16 : 0); clog_on = 1;
                                  clog_title("AES-CBC and key-expansion cases: key schedules compared with FIPS-197, CBC output of every family and route with the SP 800-38A reference");
                                  clog_event("cbc%d %s %s %s len=%u inplace=%d: first output block %s, %u bytes %s, IV buffer %s", ks_bits3[ks], dir ? "dec" : "enc", fname, route_name[route], len, inplace, oh, len, memcmp(out, exp, len) ? "DIFFER" : "equal to the reference", memcmp(iv, iv0, 16) ? "MODIFIED" : "unchanged");
                                  clog_on = 0; } }
                                feat(mix64(0xcbc, mix64((uint64_t) ((dir ? decfam + 2 : encfam) * 64 + ks * 16 + dir * 8 + inplace * 4 + route), nblk > 80 ? 81 + (nblk >> 6) + (nblk & 15) * 100000 : nblk)));
                        }
                }
        }
}
static void run_cbc(int thorough)
{
        /* pairs of (enc family, dec family) sharing a virtual CPU: sse:(x4,sse) avx:(x8,avx) avx512_g2:(x8,vaes) */
        static const struct { const char *vcpu; int e, d, kx; } combos[3] = { { "sse", 0, 0, 0 }, { "avx", 1, 1, 1 }, { "avx512_g2", 1, 2, 1 } };
        for (int ci = 0; ci < 3; ci++) {
                if (!fam_selected(combos[ci].vcpu)) continue;
                force_vcpu(combos[ci].vcpu);
                for (uint64_t c = g_from; c < g_from + g_count; c++) {
                        REPLAY("cbc", combos[ci].vcpu, c);
                        cbc_case(combos[ci].e, combos[ci].d, c, thorough);
                        keyexp_cases(c);
                }
                for (int ks = 0; ks < 3; ks++) {
                        verify_binding("cbc enc", (void *) cbc_enc_entries[ks], (void *) cbc_enc_fams[combos[ci].e].f[ks], cbc_enc_fams[combos[ci].e].name);
                        verify_binding("cbc dec", (void *) cbc_dec_entries[ks], (void *) cbc_dec_fams[combos[ci].d].f[ks], cbc_dec_fams[combos[ci].d].name);
                        verify_binding("keyexp", (void *) keyexp_entries[ks], (void *) keyexp_fams[combos[ci].kx].f[ks], keyexp_fams[combos[ci].kx].name);
                }
                char n[64]; snprintf(n, sizeof n, "cases_%s", combos[ci].vcpu); out_count(n, g_count);
        }
}

int main(int argc, char **argv)
{
        out_init(argc, argv);
        int cc = oracle_crosscheck();
        if (cc) out_err("reference oracles disagree with OpenSSL / published vectors (code %d)", cc);
        const char *what = arg_str("--what", "gcm"), *routes = arg_str("--route", "fam,isal,legacy");
        famsel = arg_str("--fam", "all");
        for (int i = 0; i < 3; i++) want_route[i] = strstr(routes, route_name[i]) != NULL;
        int thorough = !strcmp(arg_str("--tier", "quick"), "thorough");
        if (thorough || !strcmp(what, "xts")) arena_sz = 160u << 20;
        arena = straddle_map(arena_sz / 2);
        if (arena) arena_straddles = 1; else arena = aligned_alloc(4096, arena_sz);
        if (!strcmp(what, "gcm")) run_gcm(0, thorough);
        else if (!strcmp(what, "gcmstream")) run_gcm(1, thorough);
        else if (!strcmp(what, "gcmhuge")) run_gcm_huge(thorough);
        else if (!strcmp(what, "gcmaadhuge")) run_gcm_aad_huge(thorough);
        else if (!strcmp(what, "gcmhuge2") || !strcmp(what, "cbchuge")) run_huge2(what, thorough);
        else if (!strcmp(what, "xts")) run_xts(thorough);
        else if (!strcmp(what, "cbc")) run_cbc(thorough);
        else out_err("unknown --what %s", what);
        out_sample("{\"engine\":\"aesdiff\",\"what\":\"%s\",\"families\":\"%s\",\"routes\":\"%s\",\"first_case\":%llu,\"cases\":%llu}", what, famsel, routes, (unsigned long long) g_from, (unsigned long long) g_count);
        vcpu_set("host");
        out_finish();
        return viol_count() ? 1 : 0;
}
