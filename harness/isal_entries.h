/* Descriptors of the argument-taking isal_ entry points (kinds, sizes, documented codes, how to make
 * the object arguments valid) shared by the params (C16) and fips (C13) engines. */
#ifndef VERIF_ISAL_ENTRIES_H
#define VERIF_ISAL_ENTRIES_H
#include "aesfam.h"
#include "hashalgs.h"
#include <isal_crypto_api.h>
#include <multi_buffer.h>
#include <aes_gcm.h>
#include <aes_cbc.h>
#include <aes_xts.h>
#include <aes_keyexp.h>
#include <mh_sha1.h>
#include <mh_sha256.h>
#include <mh_sha1_murmur3_x64_128.h>
#include <rolling_hashx.h>
#include <sha1_mb.h>
#include <sha256_mb.h>
#include <sha512_mb.h>
#include <md5_mb.h>
#include <sm3_mb.h>

#define E(x) ISAL_CRYPTO_ERR_##x
typedef int (*anyf)(uint64_t, uint64_t, uint64_t, uint64_t, uint64_t, uint64_t, uint64_t, uint64_t, uint64_t, uint64_t);
/* kinds: P required pointer; L pointer required iff scalar arg[aux] != 0; S scalar; B hash data buffer (NULL allowed per rule aux: 0 sha-style by flags, 1 sm3-style by len) */
typedef struct { char kind; int code; int aux; uint64_t valid; size_t size; int is_out; } argd_t;
typedef struct { int arg; uint64_t value; int code; } badsc_t;
typedef struct entry {
        const char *name; anyf fn; int nargs; argd_t a[10]; badsc_t bad[6]; int nbad;
        void (*prep)(struct entry *e, uint8_t **buf);    /* make object arguments valid for in-domain calls */
} entry_t;

#define KD sizeof(struct isal_gcm_key_data)
#define CX sizeof(struct isal_gcm_context_data)
#define GCM_ONE(nm) { #nm, (anyf) nm, 10, { { 'P', E(NULL_EXP_KEY), 0, 0, KD, 0 }, { 'P', E(NULL_CTX), 0, 0, CX, 1 }, { 'L', E(NULL_DST), 4, 0, 64, 1 }, { 'L', E(NULL_SRC), 4, 0, 64, 0 }, { 'S', 0, 0, 48, 0, 0 }, \
        { 'P', E(NULL_IV), 0, 0, 12, 0 }, { 'L', E(NULL_AAD), 7, 0, 32, 0 }, { 'S', 0, 0, 20, 0, 0 }, { 'P', E(NULL_AUTH), 0, 0, 16, 1 }, { 'S', 0, 0, 16, 0, 0 } }, \
        { { 4, ISAL_GCM_MAX_LEN + 1, E(CIPH_LEN) }, { 4, ~0ULL, E(CIPH_LEN) }, { 9, 0, E(AUTH_TAG_LEN) }, { 9, 4, E(AUTH_TAG_LEN) }, { 9, 15, E(AUTH_TAG_LEN) }, { 9, 17, E(AUTH_TAG_LEN) } }, 6, prep_gcm }
#define GCM_INIT(nm) { #nm, (anyf) nm, 5, { { 'P', E(NULL_EXP_KEY), 0, 0, KD, 0 }, { 'P', E(NULL_CTX), 0, 0, CX, 1 }, { 'P', E(NULL_IV), 0, 0, 12, 0 }, { 'L', E(NULL_AAD), 4, 0, 32, 0 }, { 'S', 0, 0, 20, 0, 0 } }, { { 0 } }, 0, prep_gcm }
#define GCM_UPD(nm) { #nm, (anyf) nm, 5, { { 'P', E(NULL_EXP_KEY), 0, 0, KD, 0 }, { 'P', E(NULL_CTX), 0, 0, CX, 1 }, { 'L', E(NULL_DST), 4, 0, 64, 1 }, { 'L', E(NULL_SRC), 4, 0, 64, 0 }, { 'S', 0, 0, 64, 0, 0 } }, \
        { { 4, ISAL_GCM_MAX_LEN + 1, E(CIPH_LEN) }, { 4, ~0ULL, E(CIPH_LEN) } }, 2, prep_gcm_stream }
#define GCM_FIN(nm) { #nm, (anyf) nm, 4, { { 'P', E(NULL_EXP_KEY), 0, 0, KD, 0 }, { 'P', E(NULL_CTX), 0, 0, CX, 1 }, { 'P', E(NULL_AUTH), 0, 0, 16, 1 }, { 'S', 0, 0, 16, 0, 0 } }, \
        { { 3, 0, E(AUTH_TAG_LEN) }, { 3, 7, E(AUTH_TAG_LEN) }, { 3, 13, E(AUTH_TAG_LEN) }, { 3, 32, E(AUTH_TAG_LEN) } }, 4, prep_gcm_stream }
#define GCM_PRE(nm, kb) { #nm, (anyf) nm, 2, { { 'P', E(NULL_KEY), 0, 0, kb, 0 }, { 'P', E(NULL_EXP_KEY), 0, 0, KD, 1 } }, { { 0 } }, 0, NULL }
#define CBC(nm) { #nm, (anyf) nm, 5, { { 'P', E(NULL_SRC), 0, 0, 64, 0 }, { 'P', E(NULL_IV), 0, 0, 16, 0 }, { 'P', E(NULL_EXP_KEY), 0, 0, 240, 0 }, { 'P', E(NULL_DST), 0, 0, 64, 1 }, { 'S', 0, 0, 64, 0, 0 } }, \
        { { 4, 1, E(CIPH_LEN) }, { 4, 15, E(CIPH_LEN) }, { 4, 17, E(CIPH_LEN) }, { 4, 63, E(CIPH_LEN) } }, 4, NULL }
#define XTS(nm, kcode, ksz) { #nm, (anyf) nm, 6, { { 'P', kcode, 0, 0, ksz, 0 }, { 'P', kcode, 0, 0, ksz, 0 }, { 'P', E(XTS_NULL_TWEAK), 0, 0, 16, 0 }, { 'S', 0, 0, 64, 0, 0 }, { 'P', E(NULL_SRC), 0, 0, 64, 0 }, { 'P', E(NULL_DST), 0, 0, 64, 1 } }, \
        { { 3, 0, E(CIPH_LEN) }, { 3, 1, E(CIPH_LEN) }, { 3, 15, E(CIPH_LEN) }, { 3, (1ull << 24) + 1, E(CIPH_LEN) }, { 3, ~0ULL, E(CIPH_LEN) } }, 5, prep_xts }
#define KEYEXP(nm, kb) { #nm, (anyf) nm, 3, { { 'P', E(NULL_KEY), 0, 0, kb, 0 }, { 'P', E(NULL_EXP_KEY), 0, 0, 240, 1 }, { 'P', E(NULL_EXP_KEY), 0, 0, 240, 1 } }, { { 0 } }, 0, NULL }
#define HINIT(alg, ALG) { "isal_" #alg "_ctx_mgr_init", (anyf) isal_##alg##_ctx_mgr_init, 1, { { 'P', E(NULL_MGR), 0, 0, sizeof(ISAL_##ALG##_HASH_CTX_MGR), 1 } }, { { 0 } }, 0, NULL }
#define HSUB(alg, ALG, sm3) { "isal_" #alg "_ctx_mgr_submit", (anyf) isal_##alg##_ctx_mgr_submit, 6, { { 'P', E(NULL_MGR), 0, 0, sizeof(ISAL_##ALG##_HASH_CTX_MGR), 1 }, { 'P', E(NULL_CTX), 0, 0, sizeof(ISAL_##ALG##_HASH_CTX), 1 }, \
        { 'P', E(NULL_CTX), 0, 0, 8, 1 }, { 'B', E(NULL_SRC), sm3, 0, 200, 0 }, { 'S', 0, 0, 100, 0, 0 }, { 'S', 0, 0, ISAL_HASH_ENTIRE, 0, 0 } }, \
        { { 5, 4, E(INVALID_FLAGS) }, { 5, 8, E(INVALID_FLAGS) }, { 5, 0x103, E(INVALID_FLAGS) }, { 5, 0x80000000u, E(INVALID_FLAGS) } }, 4, prep_hash_##alg }
#define HFLU(alg, ALG) { "isal_" #alg "_ctx_mgr_flush", (anyf) isal_##alg##_ctx_mgr_flush, 2, { { 'P', E(NULL_MGR), 0, 0, sizeof(ISAL_##ALG##_HASH_CTX_MGR), 1 }, { 'P', E(NULL_CTX), 0, 0, 8, 1 } }, { { 0 } }, 0, prep_hash_##alg }
#define MH(alg, T, dl) { "isal_" #alg "_init", (anyf) isal_##alg##_init, 1, { { 'P', E(NULL_CTX), 0, 0, sizeof(T), 1 } }, { { 0 } }, 0, NULL }, \
        { "isal_" #alg "_update", (anyf) isal_##alg##_update, 3, { { 'P', E(NULL_CTX), 0, 0, sizeof(T), 1 }, { 'P', E(NULL_SRC), 0, 0, 300, 0 }, { 'S', 0, 0, 300, 0, 0 } }, { { 0 } }, 0, prep_##alg }, \
        { "isal_" #alg "_finalize", (anyf) isal_##alg##_finalize, 2, { { 'P', E(NULL_CTX), 0, 0, sizeof(T), 1 }, { 'P', E(NULL_AUTH), 0, 0, dl, 1 } }, { { 0 } }, 0, prep_##alg }

static void prep_gcm(struct entry *e, uint8_t **b) { (void) e; uint8_t key[32] = { 1, 2, 3 }; isal_aes_gcm_pre_128(key, (void *) b[0]); }
static void prep_gcm_stream(struct entry *e, uint8_t **b) { uint8_t iv[12] = { 9 }; prep_gcm(e, b); isal_aes_gcm_init_128((void *) b[0], (void *) b[1], iv, iv, 5); }
static void prep_xts(struct entry *e, uint8_t **b) { (void) e; b[0][0] ^= 0x55; }    /* make sure key1 != key2 */
#define PREP_HASH(alg, ALG) static void prep_hash_##alg(struct entry *e, uint8_t **b) { isal_##alg##_ctx_mgr_init((void *) b[0]); if (e->nargs == 6) { isal_hash_ctx_init((ISAL_##ALG##_HASH_CTX *) b[1]); } }
PREP_HASH(sha1, SHA1) PREP_HASH(sha256, SHA256) PREP_HASH(sha512, SHA512) PREP_HASH(md5, MD5) PREP_HASH(sm3, SM3)
static void prep_mh_sha1(struct entry *e, uint8_t **b) { (void) e; isal_mh_sha1_init((void *) b[0]); }
static void prep_mh_sha256(struct entry *e, uint8_t **b) { (void) e; isal_mh_sha256_init((void *) b[0]); }
static void prep_mh_sha1_murmur3_x64_128(struct entry *e, uint8_t **b) { (void) e; isal_mh_sha1_murmur3_x64_128_init((void *) b[0], 7); }
static void prep_roll(struct entry *e, uint8_t **b) { (void) e; isal_rolling_hash2_init((void *) b[0], 16); uint8_t z[48] = { 0 }; isal_rolling_hash2_reset((void *) b[0], z); }

static entry_t entries[] = {
        GCM_ONE(isal_aes_gcm_enc_128), GCM_ONE(isal_aes_gcm_enc_256), GCM_ONE(isal_aes_gcm_dec_128), GCM_ONE(isal_aes_gcm_dec_256),
        GCM_ONE(isal_aes_gcm_enc_128_nt), GCM_ONE(isal_aes_gcm_enc_256_nt), GCM_ONE(isal_aes_gcm_dec_128_nt), GCM_ONE(isal_aes_gcm_dec_256_nt),
        GCM_INIT(isal_aes_gcm_init_128), GCM_INIT(isal_aes_gcm_init_256),
        GCM_UPD(isal_aes_gcm_enc_128_update), GCM_UPD(isal_aes_gcm_enc_256_update), GCM_UPD(isal_aes_gcm_dec_128_update), GCM_UPD(isal_aes_gcm_dec_256_update),
        GCM_UPD(isal_aes_gcm_enc_128_update_nt), GCM_UPD(isal_aes_gcm_enc_256_update_nt), GCM_UPD(isal_aes_gcm_dec_128_update_nt), GCM_UPD(isal_aes_gcm_dec_256_update_nt),
        GCM_FIN(isal_aes_gcm_enc_128_finalize), GCM_FIN(isal_aes_gcm_enc_256_finalize), GCM_FIN(isal_aes_gcm_dec_128_finalize), GCM_FIN(isal_aes_gcm_dec_256_finalize),
        GCM_PRE(isal_aes_gcm_pre_128, 16), GCM_PRE(isal_aes_gcm_pre_256, 32),
        CBC(isal_aes_cbc_enc_128), CBC(isal_aes_cbc_enc_192), CBC(isal_aes_cbc_enc_256), CBC(isal_aes_cbc_dec_128), CBC(isal_aes_cbc_dec_192), CBC(isal_aes_cbc_dec_256),
        XTS(isal_aes_xts_enc_128, E(NULL_KEY), 16), XTS(isal_aes_xts_dec_128, E(NULL_KEY), 16), XTS(isal_aes_xts_enc_256, E(NULL_KEY), 32), XTS(isal_aes_xts_dec_256, E(NULL_KEY), 32),
        XTS(isal_aes_xts_enc_128_expanded_key, E(NULL_EXP_KEY), 176), XTS(isal_aes_xts_dec_128_expanded_key, E(NULL_EXP_KEY), 176),
        XTS(isal_aes_xts_enc_256_expanded_key, E(NULL_EXP_KEY), 240), XTS(isal_aes_xts_dec_256_expanded_key, E(NULL_EXP_KEY), 240),
        KEYEXP(isal_aes_keyexp_128, 16), KEYEXP(isal_aes_keyexp_192, 24), KEYEXP(isal_aes_keyexp_256, 32),
        HINIT(sha1, SHA1), HSUB(sha1, SHA1, 0), HFLU(sha1, SHA1), HINIT(sha256, SHA256), HSUB(sha256, SHA256, 0), HFLU(sha256, SHA256),
        HINIT(sha512, SHA512), HSUB(sha512, SHA512, 0), HFLU(sha512, SHA512), HINIT(md5, MD5), HSUB(md5, MD5, 0), HFLU(md5, MD5), HINIT(sm3, SM3), HSUB(sm3, SM3, 1), HFLU(sm3, SM3),
        MH(mh_sha1, struct isal_mh_sha1_ctx, 20), MH(mh_sha256, struct isal_mh_sha256_ctx, 32),
        { "isal_mh_sha1_murmur3_x64_128_init", (anyf) isal_mh_sha1_murmur3_x64_128_init, 2, { { 'P', E(NULL_CTX), 0, 0, sizeof(struct isal_mh_sha1_murmur3_x64_128_ctx), 1 }, { 'S', 0, 0, 77, 0, 0 } }, { { 0 } }, 0, NULL },
        { "isal_mh_sha1_murmur3_x64_128_update", (anyf) isal_mh_sha1_murmur3_x64_128_update, 3, { { 'P', E(NULL_CTX), 0, 0, sizeof(struct isal_mh_sha1_murmur3_x64_128_ctx), 1 }, { 'P', E(NULL_SRC), 0, 0, 300, 0 }, { 'S', 0, 0, 300, 0, 0 } }, { { 0 } }, 0, prep_mh_sha1_murmur3_x64_128 },
        { "isal_mh_sha1_murmur3_x64_128_finalize", (anyf) isal_mh_sha1_murmur3_x64_128_finalize, 3, { { 'P', E(NULL_CTX), 0, 0, sizeof(struct isal_mh_sha1_murmur3_x64_128_ctx), 1 }, { 'P', E(NULL_AUTH), 0, 0, 20, 1 }, { 'P', E(NULL_AUTH), 0, 0, 16, 1 } }, { { 0 } }, 0, prep_mh_sha1_murmur3_x64_128 },
        { "isal_rolling_hash2_init", (anyf) isal_rolling_hash2_init, 2, { { 'P', E(NULL_CTX), 0, 0, sizeof(struct isal_rh_state2), 1 }, { 'S', 0, 0, 16, 0, 0 } },
          { { 1, 0, E(WINDOW_SIZE) }, { 1, 49, E(WINDOW_SIZE) }, { 1, 64, E(WINDOW_SIZE) }, { 1, 0xffffffffu, E(WINDOW_SIZE) } }, 4, NULL },
        { "isal_rolling_hash2_reset", (anyf) isal_rolling_hash2_reset, 2, { { 'P', E(NULL_CTX), 0, 0, sizeof(struct isal_rh_state2), 1 }, { 'P', E(NULL_INIT_VAL), 0, 0, 48, 0 } }, { { 0 } }, 0, prep_roll },
        { "isal_rolling_hash2_run", (anyf) isal_rolling_hash2_run, 7, { { 'P', E(NULL_CTX), 0, 0, sizeof(struct isal_rh_state2), 1 }, { 'P', E(NULL_SRC), 0, 0, 500, 0 }, { 'S', 0, 0, 500, 0, 0 }, { 'S', 0, 0, 0xff, 0, 0 }, { 'S', 0, 0, 0x21, 0, 0 },
          { 'P', E(NULL_OFFSET), 0, 0, 4, 1 }, { 'P', E(NULL_MATCH), 0, 0, 4, 1 } }, { { 0 } }, 0, prep_roll },
        { "isal_rolling_hashx_mask_gen", (anyf) isal_rolling_hashx_mask_gen, 3, { { 'S', 0, 0, 1024, 0, 0 }, { 'S', 0, 0, 3, 0, 0 }, { 'P', E(NULL_MASK), 0, 0, 4, 1 } }, { { 0 } }, 0, NULL },
};
#define NENT ((int) (sizeof entries / sizeof entries[0]))

static uint8_t *bufs[10], *copies[10];

static void alloc_valid(entry_t *e, rng_t *r)
{
        for (int i = 0; i < e->nargs; i++) {
                bufs[i] = copies[i] = NULL;
                if (e->a[i].kind == 'S') continue;
                bufs[i] = aligned_alloc(64, (e->a[i].size + 127) & ~(size_t) 63);
                rng_fill(r, bufs[i], (e->a[i].size + 127) & ~(size_t) 63);        /* the slack behind the object too: what a call reads past an argument must not be a constant */
        }
        if (e->prep) e->prep(e, bufs);
        for (int i = 0; i < e->nargs; i++) if (bufs[i]) { copies[i] = malloc(e->a[i].size); memcpy(copies[i], bufs[i], e->a[i].size); }
}
static void free_valid(entry_t *e) { for (int i = 0; i < e->nargs; i++) { free(bufs[i]); free(copies[i]); } }
static int call(entry_t *e, uint64_t *v) { return e->fn(v[0], v[1], v[2], v[3], v[4], v[5], v[6], v[7], v[8], v[9]); }

#endif
