/* AES implementation families: generic signatures + tables of the family symbols,
 * the dispatched internal entries, the isal_ API and the legacy API. */
#ifndef VERIF_AESFAM_H
#define VERIF_AESFAM_H
#include "common.h"
#include "../ref/ref.h"

typedef void (*gcm_precomp_f)(void *kd);
typedef void (*gcm_pre_f)(const void *key, void *kd);
typedef void (*gcm_one_f)(const void *kd, void *ctx, uint8_t *out, const uint8_t *in, uint64_t len, uint8_t *iv,
                          const uint8_t *aad, uint64_t aadlen, uint8_t *tag, uint64_t taglen);
typedef void (*gcm_init_f)(const void *kd, void *ctx, uint8_t *iv, const uint8_t *aad, uint64_t aadlen);
typedef void (*gcm_upd_f)(const void *kd, void *ctx, uint8_t *out, const uint8_t *in, uint64_t len);
typedef void (*gcm_fin_f)(const void *kd, void *ctx, uint8_t *tag, uint64_t taglen);
typedef int (*igcm_pre_f)(const void *key, void *kd);
typedef int (*igcm_one_f)(const void *kd, void *ctx, uint8_t *out, const uint8_t *in, uint64_t len, const uint8_t *iv,
                          const uint8_t *aad, uint64_t aadlen, uint8_t *tag, uint64_t taglen);
typedef int (*igcm_init_f)(const void *kd, void *ctx, const uint8_t *iv, const uint8_t *aad, uint64_t aadlen);
typedef int (*igcm_upd_f)(const void *kd, void *ctx, uint8_t *out, const uint8_t *in, uint64_t len);
typedef int (*igcm_fin_f)(const void *kd, void *ctx, uint8_t *tag, uint64_t taglen);

/* index: [ks] 0=128 1=256 ; [dir] 0=enc 1=dec ; [nt] 0/1 */
typedef struct {
        gcm_precomp_f precomp[2];
        gcm_one_f one[2][2][2];
        gcm_init_f init[2];
        gcm_upd_f upd[2][2][2];
        gcm_fin_f fin[2][2];
} gcm_set_t;
typedef struct { const char *name; const char *vcpu; gcm_set_t s; } gcmfam_t;
#define NGCMFAM 4
extern const gcmfam_t gcm_fams[NGCMFAM];        /* sse avx_gen2 avx_gen4 vaes_avx512 */
extern const gcm_set_t gcm_entries;             /* the dispatched internal entries (_aes_gcm_*) */
typedef struct {
        igcm_pre_f pre[2]; igcm_one_f one[2][2][2]; igcm_init_f init[2]; igcm_upd_f upd[2][2][2]; igcm_fin_f fin[2][2];
} igcm_set_t;
extern const igcm_set_t gcm_isal;               /* isal_aes_gcm_* */
typedef struct { gcm_pre_f pre[2]; gcm_set_t s; } lgcm_set_t;
extern const lgcm_set_t gcm_legacy;             /* aes_gcm_* (precomp slot unused) */
extern const gcm_pre_f gcm_pre_internal[2];     /* _aes_gcm_pre_128/256 */

/* XTS: (k2, k1, tweak, len, in, out) ; index [ks][dir][expanded] */
typedef void (*xts_f)(const uint8_t *k2, const uint8_t *k1, const uint8_t *tw, uint64_t len, const void *in, void *out);
typedef int (*ixts_f)(const uint8_t *k2, const uint8_t *k1, const uint8_t *tw, uint64_t len, const void *in, void *out);
typedef struct { const char *name; const char *vcpu; xts_f f[2][2][2]; } xtsfam_t;
#define NXTSFAM 3
extern const xtsfam_t xts_fams[NXTSFAM];        /* sse avx vaes */
extern const xts_f xts_entries[2][2][2], xts_legacy[2][2][2];
extern const ixts_f xts_isal[2][2][2];

/* CBC: (in, iv, keys, out, len) ; index [ks] 0=128 1=192 2=256 */
typedef void (*cbc_dec_f)(const void *in, const uint8_t *iv, const uint8_t *keys, void *out, uint64_t len);
typedef int (*cbc_enc_f)(const void *in, const uint8_t *iv, const uint8_t *keys, void *out, uint64_t len);
typedef int (*icbc_f)(const void *in, const void *iv, const void *keys, void *out, uint64_t len);
typedef struct { const char *name; const char *vcpu; cbc_enc_f f[3]; } cbcencfam_t;
typedef struct { const char *name; const char *vcpu; cbc_dec_f f[3]; } cbcdecfam_t;
extern const cbcencfam_t cbc_enc_fams[2];       /* x4 x8 */
extern const cbcdecfam_t cbc_dec_fams[3];       /* sse avx vaes_avx512 */
extern const cbc_enc_f cbc_enc_entries[3], cbc_enc_legacy[3];
extern const cbc_dec_f cbc_dec_entries[3], cbc_dec_legacy[3];
extern const icbc_f cbc_enc_isal[3], cbc_dec_isal[3];

/* key expansion: (key, enc, dec) ; [ks] ; 128_enc variant: (key, enc) */
typedef void (*keyexp_f)(const uint8_t *key, uint8_t *enc, uint8_t *dec);
typedef int (*ikeyexp_f)(const uint8_t *key, uint8_t *enc, uint8_t *dec);
typedef void (*keyexp_enc_f)(const uint8_t *key, uint8_t *enc);
typedef struct { const char *name; const char *vcpu; keyexp_f f[3]; keyexp_enc_f enc128; } keyexpfam_t;
extern const keyexpfam_t keyexp_fams[2];        /* sse avx */
extern const keyexp_f keyexp_entries[3], keyexp_legacy[3];
extern const ikeyexp_f keyexp_isal[3];
extern const keyexp_enc_f keyexp_enc128_entry;

static const int ks_bits2[2] = { 128, 256 };
static const int ks_bits3[3] = { 128, 192, 256 };

/* OpenSSL second oracle (for long inputs) */
int ossl_gcm(int keybits, int enc, const uint8_t *key, const uint8_t *iv, const uint8_t *aad, size_t aadlen,
             const uint8_t *in, uint8_t *out, size_t len, uint8_t tag[16]);
int ossl_xts(int keybits, int enc, const uint8_t *k1, const uint8_t *k2, const uint8_t *tweak, const uint8_t *in, uint8_t *out, size_t len);
int ossl_cbc(int keybits, int enc, const uint8_t *key, const uint8_t *iv, const uint8_t *in, uint8_t *out, size_t len);
int ossl_hash(int ref_alg, const void *p, size_t n, uint8_t *out);
int oracle_crosscheck(void);    /* ref <-> OpenSSL on a fixed battery; 0 ok */
#endif
